#!/usr/bin/env python3
# merge_evidence.py <root> <id> <nshards> <tier>: merges evidence/<id>.shard<i>.json into evidence/<id>.json
import json, os, sys
root, pid, n, tier = sys.argv[1], sys.argv[2], int(sys.argv[3]), sys.argv[4]
parts = []
for i in range(n):
    p = os.path.join(root, 'evidence', f'{pid}.shard{i}.json')
    parts.append(json.load(open(p)))
    os.remove(p)
ev = parts[0]
cov = ev['coverage']
def addnum(k):
    cov[k] = sum(p['coverage'].get(k, 0) or 0 for p in parts)
for k in ('obligations', 'discharged', 'evaluations', 'distinct_nontrivial', 'solver_secs'):
    if k in cov:
        addnum(k)
for k in ('obligation_list', 'functions_under_contract', 'engine_warnings', 'goroutine_spawns_not_followed', 'known_findings_hit', 'samples'):
    if isinstance(cov.get(k), list):
        out = []
        for p in parts:
            for x in (p['coverage'].get(k) or []):
                if not isinstance(x, (str, int)) or x not in out:
                    out.append(x)
        cov[k] = out
for k in ('backends', 'trusted_base', 'inlined_callees'):
    if isinstance(cov.get(k), dict):
        m = {}
        for p in parts:
            for kk, vv in (p['coverage'].get(k) or {}).items():
                if isinstance(vv, (int, float)):
                    m[kk] = m.get(kk, 0) + vv
                else:
                    m[kk] = vv
        cov[k] = m
if 'lock_sweep' in cov:
    ls = cov['lock_sweep']
    ls['functions_checked'] = sum(p['coverage']['lock_sweep']['functions_checked'] for p in parts)
    nh = []
    for p in parts:
        nh += p['coverage']['lock_sweep'].get('functions_not_handled') or []
    ls['functions_not_handled'] = sorted(nh)
    ls['shards'] = n
ev['violations'] = sum(p['violations'] for p in parts)
ev['wall_s'] = max(p['wall_s'] for p in parts)
lv = [p['level'] for p in parts if (p['coverage'].get('obligations') or 0) > 0]
ev['level'] = 'proof' if lv and all(x == 'proof' for x in lv) else 'other'
if json.load(open(os.path.join(root, 'checks', f'{pid}.json'))).get('level') == 'other':
    ev['level'] = 'other'
cfg = json.load(open(os.path.join(root, 'checks', f'{pid}.json')))
rc = 0
mn = cfg.get('min_lock_sweep_functions', 0)
if mn and cov.get('lock_sweep', {}).get('functions_checked', 0) < mn:
    # vacuity guard: the sweep must have covered (about) the whole module
    rp = os.path.join(root, 'replays', pid, 'lock_sweep_coverage.json')
    os.makedirs(os.path.dirname(rp), exist_ok=True)
    json.dump({'property': pid, 'obligation': 'lock_sweep.coverage', 'detail': f"only {cov['lock_sweep']['functions_checked']} functions were checked in lock mode, at least {mn} expected", 'not_handled': cov['lock_sweep'].get('functions_not_handled')}, open(rp, 'w'), indent=1)
    print(f'VIOLATION property={pid} replay={rp} obligation="lock_sweep.coverage" no-failing-input-found')
    ev['violations'] += 1
    rc = 1
json.dump(ev, open(os.path.join(root, 'evidence', f'{pid}.json'), 'w'), indent=1)
kf = len(cov.get('known_findings_hit') or [])
print(f"{pid} {tier}: {cov.get('obligations')} obligations, {cov.get('discharged')} discharged, {kf} known findings, {ev['violations']} violations, {ev['wall_s']:.1f}s ({n} shards)")
sys.exit(rc)

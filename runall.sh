#!/bin/sh
# runall.sh [quick|thorough]: every claimed check, one after the other; summary lines only
tier="${1:-quick}"
for id in $(python3 -c "import json;print(' '.join(c['property_id'] for c in json.load(open('/verif/MANIFEST.json'))['checks']))"); do
  /verif/check.sh $id $tier 2>&1 | grep -E "obligations,|VIOLATION|KNOWN-FINDING: property=[A-Z0-9]+ C18.api.off.identity.ManagerReconnectAttempt" | cut -c1-220
done

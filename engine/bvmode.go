package main

// Bit-vector / IEEE floating-point mode (`ints bv` in a contract): Go integers are (_ BitVec w) with wrap-around,
// float64 is (_ FloatingPoint 11 53). Used where wrap-around and float conversion are the point (backoff.duration).
// Only what straight-line arithmetic code needs is supported: no slices, strings or maps of such values.

import (
	"fmt"
	"go/constant"
	"go/token"
	"go/types"
	"math/big"
)

var bvSorts = map[int]*Sort{}

func BVSort(w int) *Sort {
	if s, ok := bvSorts[w]; ok {
		return s
	}
	s := &Sort{Name: fmt.Sprintf("(_ BitVec %d)", w), BV: w}
	bvSorts[w] = s
	return s
}

var (
	SF64 = &Sort{Name: "(_ FloatingPoint 11 53)", FP: 64}
	SF32 = &Sort{Name: "(_ FloatingPoint 8 24)", FP: 32}
)

// Raw: an SMT-LIB builtin application printed verbatim, e.g. head "bvadd" or "(_ to_fp 11 53) RNE".
func (ts *TermStore) Raw(head string, s *Sort, args ...*Term) *Term {
	return ts.intern(&Term{Op: "raw", Name: head, Args: args, Sort: s})
}

func (ts *TermStore) BVLit(v *big.Int, w int) *Term {
	m := new(big.Int).Lsh(big.NewInt(1), uint(w))
	x := new(big.Int).Mod(v, m)
	return ts.intern(&Term{Op: "rawlit", Name: fmt.Sprintf("(_ bv%s %d)", x.String(), w), Sort: BVSort(w)})
}

func fpSortOf(T types.Type) *Sort {
	if b, ok := T.Underlying().(*types.Basic); ok && b.Kind() == types.Float32 {
		return SF32
	}
	return SF64
}

func fpHead(s *Sort) string {
	if s == SF32 {
		return "(_ to_fp 8 24)"
	}
	return "(_ to_fp 11 53)"
}

func (ts *TermStore) FPLitDecimal(dec string, s *Sort) *Term {
	neg := false
	if len(dec) > 0 && dec[0] == '-' {
		neg = true
		dec = dec[1:]
	}
	if !containsDot(dec) {
		dec += ".0"
	}
	if neg {
		dec = "(- " + dec + ")"
	}
	return ts.intern(&Term{Op: "rawlit", Name: "(" + fpHead(s) + " RNE " + dec + ")", Sort: s})
}

func containsDot(s string) bool {
	for _, c := range s {
		if c == '.' {
			return true
		}
	}
	return false
}

func (X *Exec) bvConst(c constant.Value, T types.Type) *Term {
	ts := X.E.TS
	b := T.Underlying().(*types.Basic)
	if b.Info()&types.IsFloat != 0 {
		f := constant.ToFloat(c)
		num, den := constant.Num(f), constant.Denom(f)
		if den.ExactString() == "1" {
			return ts.FPLitDecimal(num.ExactString(), fpSortOf(T))
		}
		s := fpSortOf(T)
		return ts.Raw("fp.div RNE", s, ts.FPLitDecimal(num.ExactString(), s), ts.FPLitDecimal(den.ExactString(), s))
	}
	w, _ := intBits(T)
	v, _ := new(big.Int).SetString(constant.ToInt(c).ExactString(), 10)
	return ts.BVLit(v, w)
}

func (X *Exec) bvBinOp(op token.Token, x, y *Term, xT, T types.Type, st *State) *Term {
	ts := X.E.TS
	if x.Sort.FP != 0 {
		s := x.Sort
		switch op {
		case token.ADD:
			return ts.Raw("fp.add RNE", s, x, y)
		case token.SUB:
			return ts.Raw("fp.sub RNE", s, x, y)
		case token.MUL:
			return ts.Raw("fp.mul RNE", s, x, y)
		case token.QUO:
			return ts.Raw("fp.div RNE", s, x, y)
		case token.LSS:
			return ts.Raw("fp.lt", SBool, x, y)
		case token.LEQ:
			return ts.Raw("fp.leq", SBool, x, y)
		case token.GTR:
			return ts.Raw("fp.gt", SBool, x, y)
		case token.GEQ:
			return ts.Raw("fp.geq", SBool, x, y)
		case token.EQL:
			return ts.Raw("fp.eq", SBool, x, y)
		case token.NEQ:
			return ts.Not(ts.Raw("fp.eq", SBool, x, y))
		}
		panic("bv mode: float op " + op.String())
	}
	_, signed := intBits(xT)
	s := x.Sort
	switch op {
	case token.ADD:
		return ts.Raw("bvadd", s, x, y)
	case token.SUB:
		return ts.Raw("bvsub", s, x, y)
	case token.MUL:
		return ts.Raw("bvmul", s, x, y)
	case token.AND:
		return ts.Raw("bvand", s, x, y)
	case token.OR:
		return ts.Raw("bvor", s, x, y)
	case token.XOR:
		return ts.Raw("bvxor", s, x, y)
	case token.AND_NOT:
		return ts.Raw("bvand", s, x, ts.Raw("bvnot", s, y))
	case token.QUO:
		if signed {
			return ts.Raw("bvsdiv", s, x, y)
		}
		return ts.Raw("bvudiv", s, x, y)
	case token.REM:
		if signed {
			return ts.Raw("bvsrem", s, x, y)
		}
		return ts.Raw("bvurem", s, x, y)
	case token.SHL:
		return ts.Raw("bvshl", s, x, X.bvResize(y, s.BV, false))
	case token.SHR:
		if signed {
			return ts.Raw("bvashr", s, x, X.bvResize(y, s.BV, false))
		}
		return ts.Raw("bvlshr", s, x, X.bvResize(y, s.BV, false))
	case token.EQL:
		return ts.Eq(x, y)
	case token.NEQ:
		return ts.Not(ts.Eq(x, y))
	case token.LSS, token.LEQ, token.GTR, token.GEQ:
		name := map[token.Token]string{token.LSS: "lt", token.LEQ: "le", token.GTR: "gt", token.GEQ: "ge"}[op]
		if signed {
			return ts.Raw("bvs"+name, SBool, x, y)
		}
		return ts.Raw("bvu"+name, SBool, x, y)
	}
	panic("bv mode: op " + op.String())
}

func (X *Exec) bvResize(x *Term, w int, signed bool) *Term {
	ts := X.E.TS
	from := x.Sort.BV
	switch {
	case from == w:
		return x
	case from > w:
		return ts.Raw(fmt.Sprintf("(_ extract %d 0)", w-1), BVSort(w), x)
	case signed:
		return ts.Raw(fmt.Sprintf("(_ sign_extend %d)", w-from), BVSort(w), x)
	}
	return ts.Raw(fmt.Sprintf("(_ zero_extend %d)", w-from), BVSort(w), x)
}

func (X *Exec) bvConvert(x *Term, from, to types.Type, st *State) *Term {
	ts := X.E.TS
	fb, _ := from.Underlying().(*types.Basic)
	tb, _ := to.Underlying().(*types.Basic)
	if fb == nil || tb == nil {
		return x
	}
	fInt, tInt := fb.Info()&types.IsInteger != 0, tb.Info()&types.IsInteger != 0
	fFl, tFl := fb.Info()&types.IsFloat != 0, tb.Info()&types.IsFloat != 0
	switch {
	case fInt && tInt:
		w, _ := intBits(to)
		_, fs := intBits(from)
		return X.bvResize(x, w, fs)
	case fInt && tFl:
		_, fs := intBits(from)
		s := fpSortOf(to)
		if fs {
			return ts.Raw(fpHead(s)+" RNE", s, x)
		}
		return ts.Raw(fpUHead(s)+" RNE", s, x)
	case fFl && tFl:
		s := fpSortOf(to)
		if s == x.Sort {
			return x
		}
		return ts.Raw(fpHead(s)+" RNE", s, x)
	case fFl && tInt:
		// Go: the result of converting an out-of-range (or NaN/Inf) float is implementation-specific: left
		// unconstrained. In range it truncates toward zero.
		w, ts2 := intBits(to)
		s := x.Sort
		var lo, hi *Term // representable iff lo <= x < hi (as floats: -2^(w-1) and 2^(w-1) are exact)
		two := new(big.Int).Lsh(big.NewInt(1), uint(w-1))
		var conv *Term
		if ts2 {
			lo = ts.FPLitDecimal("-"+two.String(), s)
			hi = ts.FPLitDecimal(two.String(), s)
			conv = ts.Raw(fmt.Sprintf("(_ fp.to_sbv %d) RTZ", w), BVSort(w), x)
		} else {
			lo = ts.FPLitDecimal("0", s)
			hi = ts.FPLitDecimal(new(big.Int).Lsh(big.NewInt(1), uint(w)).String(), s)
			conv = ts.Raw(fmt.Sprintf("(_ fp.to_ubv %d) RTZ", w), BVSort(w), x)
			// (-1, 0) truncates to 0
			lo = ts.FPLitDecimal("-1", s)
			inr := ts.And(ts.Raw("fp.gt", SBool, x, lo), ts.Raw("fp.lt", SBool, x, hi))
			return ts.Ite(inr, conv, ts.Fresh("f2i.unspecified", BVSort(w)))
		}
		inr := ts.And(ts.Raw("fp.geq", SBool, x, lo), ts.Raw("fp.lt", SBool, x, hi))
		return ts.Ite(inr, conv, ts.Fresh("f2i.unspecified", BVSort(w)))
	}
	return x
}

func fpUHead(s *Sort) string {
	if s == SF32 {
		return "(_ to_fp_unsigned 8 24)"
	}
	return "(_ to_fp_unsigned 11 53)"
}

// bvExtern: math / math/rand functions with exact IEEE meaning (assumed: the Go functions compute these).
func (X *Exec) bvExtern(key string, args []*Val, st *State) (*Val, bool) {
	ts := X.E.TS
	f64 := types.Typ[types.Float64]
	switch key {
	case "math.Floor":
		return &Val{T: ts.Raw("fp.roundToIntegral RTN", SF64, args[0].T), GT: f64}, true
	case "math.Min":
		// math.Min propagates NaN, fp.min does not: equal when neither argument is NaN
		x, y := args[0].T, args[1].T
		nan := ts.Or(ts.Raw("fp.isNaN", SBool, x), ts.Raw("fp.isNaN", SBool, y))
		return &Val{T: ts.Ite(nan, ts.Raw("_ NaN 11 53", SF64), ts.Raw("fp.min", SF64, x, y)), GT: f64}, true
	case "math.Max":
		x, y := args[0].T, args[1].T
		nan := ts.Or(ts.Raw("fp.isNaN", SBool, x), ts.Raw("fp.isNaN", SBool, y))
		return &Val{T: ts.Ite(nan, ts.Raw("_ NaN 11 53", SF64), ts.Raw("fp.max", SF64, x, y)), GT: f64}, true
	case "math/rand.Float64":
		r := ts.Fresh("rand", SF64)
		st.assume(ts, ts.And(ts.Raw("fp.leq", SBool, ts.FPLitDecimal("0", SF64), r), ts.Raw("fp.lt", SBool, r, ts.FPLitDecimal("1", SF64))))
		return &Val{T: r, GT: f64}, true
	case "math.Pow":
		// assumed: Pow(2, k) is exactly 2^k for an integer k in [0, 1024) and +Inf for k >= 1024; anything else unconstrained
		x, y := args[0].T, args[1].T
		k := ts.Raw("(_ fp.to_ubv 32) RTZ", BVSort(32), y)
		isInt := ts.And(ts.Raw("fp.eq", SBool, y, ts.Raw("(_ to_fp_unsigned 11 53) RNE", SF64, k)), ts.Raw("fp.geq", SBool, y, ts.FPLitDecimal("0", SF64)), ts.Raw("fp.lt", SBool, y, ts.FPLitDecimal("4294967296", SF64)))
		small := ts.Raw("bvult", SBool, k, ts.BVLit(big.NewInt(1024), 32))
		exp := ts.Raw("bvadd", BVSort(11), ts.Raw("(_ extract 10 0)", BVSort(11), k), ts.BVLit(big.NewInt(1023), 11))
		exact := ts.Raw("fp", SF64, ts.BVLit(big.NewInt(0), 1), exp, ts.BVLit(big.NewInt(0), 52))
		res := ts.Fresh("pow", SF64)
		isTwo := ts.Raw("fp.eq", SBool, x, ts.FPLitDecimal("2", SF64))
		st.assume(ts, ts.Implies(ts.And(isTwo, isInt), ts.Eq(res, ts.Ite(small, exact, ts.Raw("_ +oo 11 53", SF64)))))
		return &Val{T: res, GT: f64}, true
	}
	return nil, false
}

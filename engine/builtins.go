package main

import (
	"fmt"
	"go/token"
	"go/types"
	"strings"

	"golang.org/x/tools/go/ssa"
)

func (X *Exec) execBuiltin(fr *Frame, ins ssa.Instruction, b *ssa.Builtin, cc *ssa.CallCommon, st *State, args []*Val) *Val {
	ts := X.E.TS
	intT := types.Typ[types.Int]
	switch b.Name() {
	case "len", "cap":
		x := args[0]
		switch u := cc.Args[0].Type().Underlying().(type) {
		case *types.Slice:
			if b.Name() == "len" {
				return &Val{T: ts.Sel(x.T, 2), GT: intT}
			}
			return &Val{T: ts.Sel(x.T, 3), GT: intT}
		case *types.Basic:
			return &Val{T: X.E.StrLen(x.T), GT: intT}
		case *types.Map:
			return &Val{T: X.mapLen(st, u, x.T), GT: intT}
		case *types.Array:
			return &Val{T: ts.IntLit(u.Len()), GT: intT}
		case *types.Pointer:
			return &Val{T: ts.IntLit(u.Elem().Underlying().(*types.Array).Len()), GT: intT}
		case *types.Chan:
			v := ts.Fresh("chanlen", SInt)
			st.assume(ts, ts.Le(ts.IntLit(0), v))
			return &Val{T: v, GT: intT}
		}
		panic("len of " + typeKey(cc.Args[0].Type()))
	case "append":
		return X.execAppend(fr, ins, cc, st, args)
	case "copy":
		return X.execCopy(fr, ins, cc, st, args)
	case "delete":
		X.checkGuardedMapWrite(fr, st, cc.Args[0], ins.Pos())
		mt := cc.Args[0].Type().Underlying().(*types.Map)
		X.mapDelete(st, mt, args[0].T, X.asTerm(st, args[1], mt.Key()))
		return nil
	case "close":
		return nil
	case "print", "println":
		return nil
	case "recover":
		// the pending panic value (nil outside a panic path); recovering clears it
		pv := X.heap(st, "GH|~panicval", SIface)
		X.setHeap(st, "GH|~panicval", SIface, X.E.IfaceNil())
		return &Val{T: pv, GT: cc.Signature().Results().At(0).Type()}
	case "ssa:wrapnilchk":
		return args[0]
	case "ssa:deferstack":
		return &Val{T: ts.IntLit(0), GT: b.Type().(*types.Signature).Results().At(0).Type()}
	case "min", "max":
		r := args[0].T
		for _, a := range args[1:] {
			if b.Name() == "min" {
				r = ts.Ite(ts.Le(r, a.T), r, a.T)
			} else {
				r = ts.Ite(ts.Le(r, a.T), a.T, r)
			}
		}
		return &Val{T: r, GT: args[0].GT}
	case "clear":
		X.havocAll(st, "clear")
		return nil
	}
	panic("builtin " + b.Name())
}

// staticLen: the slice's length when it is a literal (e.g. variadic argument arrays).
func staticLen(s *Term) (int64, bool) {
	if s.Op == "ctor" && s.Args[2].Op == "int" && s.Args[2].Int.IsInt64() {
		return s.Args[2].Int.Int64(), true
	}
	return 0, false
}

func (X *Exec) execAppend(fr *Frame, ins ssa.Instruction, cc *ssa.CallCommon, st *State, args []*Val) *Val {
	ts := X.E.TS
	s, t := args[0].T, args[1].T
	T := cc.Args[0].Type()
	el := T.Underlying().(*types.Slice).Elem()
	srcFromString := false
	if t.Sort == SStr {
		srcFromString = true
	}
	n, hs := X.E.ElemHeap(el)
	E := X.heap(st, n, hs)
	sarr, soff, slen, scap := ts.Sel(s, 0), ts.Sel(s, 1), ts.Sel(s, 2), ts.Sel(s, 3)
	var tlen *Term
	var src func(k *Term) *Term
	if srcFromString {
		tlen = X.E.StrLen(t)
		src = func(k *Term) *Term { return X.E.StrAt(t, k) }
	} else {
		tarr, toff := ts.Sel(t, 0), ts.Sel(t, 1)
		tlen = ts.Sel(t, 2)
		tdata := ts.Select(E, tarr)
		src = func(k *Term) *Term { return ts.Select(tdata, X.E.ElemIdx(toff, k)) }
	}
	newLen := ts.Add(slen, tlen)
	inPlace := ts.Le(newLen, scap)
	sdata := ts.Select(E, sarr)

	fresh := X.newRef(st, "append")
	newCap := ts.Fresh("appendcap", SInt)
	st.assume(ts, ts.Le(newLen, newCap))

	var a1, a2 *Term // content of the old array after in-place write; content of the fresh array
	if sl, ok := staticLen(t); ok && sl <= 8 {
		a1 = sdata
		for k := int64(0); k < sl; k++ {
			a1 = ts.Store(a1, X.E.ElemIdx(soff, ts.Add(slen, ts.IntLit(k))), src(ts.IntLit(k)))
		}
	} else {
		a1 = ts.Fresh("append.inplace", hs.Elem)
		k := ts.BoundVar("k", SInt)
		lo := ts.Add(soff, slen)
		inWin := ts.And(ts.Le(lo, k), ts.Lt(k, ts.Add(lo, tlen)))
		st.assume(ts, ts.Forall([]*Term{k}, ts.Eq(ts.Select(a1, k), ts.Ite(inWin, src(ts.Sub(k, lo)), ts.Select(sdata, k))), []*Term{ts.Select(a1, k)}))
	}
	{
		a2 = ts.Fresh("append.fresh", hs.Elem)
		k := ts.BoundVar("k", SInt)
		body := ts.And(
			ts.Implies(ts.And(ts.Le(ts.IntLit(0), k), ts.Lt(k, slen)), ts.Eq(ts.Select(a2, k), ts.Select(sdata, X.E.ElemIdx(soff, k)))),
			ts.Implies(ts.And(ts.Le(slen, k), ts.Lt(k, newLen)), ts.Eq(ts.Select(a2, k), src(ts.Sub(k, slen)))))
		st.assume(ts, ts.Forall([]*Term{k}, body, []*Term{ts.Select(a2, k)}))
	}
	// appending nothing to a nil slice keeps it nil; otherwise in place iff it fits
	res := ts.Ite(inPlace, ts.Ctor(X.E.SliceS, sarr, soff, newLen, scap), ts.Ctor(X.E.SliceS, fresh, ts.IntLit(0), newLen, newCap))
	// in-place with a nil array can only be the empty append
	newE := ts.Ite(inPlace, ts.Ite(ts.Eq(sarr, ts.IntLit(0)), E, ts.Store(E, sarr, a1)), ts.Store(E, fresh, a2))
	X.setHeap(st, n, hs, newE)
	return &Val{T: res, GT: T}
}

func (X *Exec) execCopy(fr *Frame, ins ssa.Instruction, cc *ssa.CallCommon, st *State, args []*Val) *Val {
	ts := X.E.TS
	d, s := args[0].T, args[1].T
	el := cc.Args[0].Type().Underlying().(*types.Slice).Elem()
	n, hs := X.E.ElemHeap(el)
	E := X.heap(st, n, hs)
	darr, doff, dlen := ts.Sel(d, 0), ts.Sel(d, 1), ts.Sel(d, 2)
	var slen *Term
	var src func(k *Term) *Term
	if s.Sort == SStr {
		slen = X.E.StrLen(s)
		src = func(k *Term) *Term { return X.E.StrAt(s, k) }
	} else {
		sdata := ts.Select(E, ts.Sel(s, 0))
		soff := ts.Sel(s, 1)
		slen = ts.Sel(s, 2)
		src = func(k *Term) *Term { return ts.Select(sdata, X.E.ElemIdx(soff, k)) }
	}
	cnt := ts.Ite(ts.Le(dlen, slen), dlen, slen)
	ddata := ts.Select(E, darr)
	nd := ts.Fresh("copy", hs.Elem)
	k := ts.BoundVar("k", SInt)
	inWin := ts.And(ts.Le(doff, k), ts.Lt(k, ts.Add(doff, cnt)))
	st.assume(ts, ts.Forall([]*Term{k}, ts.Eq(ts.Select(nd, k), ts.Ite(inWin, src(ts.Sub(k, doff)), ts.Select(ddata, k))), []*Term{ts.Select(nd, k)}))
	X.setHeap(st, n, hs, ts.Ite(ts.Eq(cnt, ts.IntLit(0)), E, ts.Store(E, darr, nd)))
	return &Val{T: cnt, GT: types.Typ[types.Int]}
}

// ---------------------------------------------------------------------------
// calls with built-in meaning: mutexes, sync.Once, atomics

func (X *Exec) lockOf(fr *Frame, st *State, recv *Val) (heap string, idx *Term, T types.Type, field string, ok bool) {
	ts := X.E.TS
	if recv.A != nil {
		a := recv.A
		switch a.Kind {
		case AddrObj:
			if len(a.Path) >= 1 && structOf(a.ObjT) != nil {
				f := structOf(a.ObjT).Field(a.Path[0].Field).Name()
				for _, pe := range a.Path[1:] {
					f += fmt.Sprintf(".%d", pe.Field)
				}
				n, _ := X.E.LockHeap(a.ObjT, f)
				return n, a.Ref, a.ObjT, structOf(a.ObjT).Field(a.Path[0].Field).Name(), true
			}
		case AddrGlobal:
			return "LK|global|" + X.globalName(a.Glob), ts.IntLit(0), nil, "", true
		case AddrCell:
			return fmt.Sprintf("LK|cell|%s", a.Cell.Name), ts.IntLit(int64(a.Cell.ID)), nil, "", true
		}
		return "", nil, nil, "", false
	}
	if recv.T != nil {
		return "LK|ptr", recv.T, nil, "", true
	}
	return "", nil, nil, "", false
}

func (X *Exec) specialCall(fr *Frame, ins ssa.Instruction, callee *ssa.Function, key string, cc *ssa.CallCommon, st *State, args []*Val) (*Val, bool) {
	ts := X.E.TS
	pos := ins.Pos()
	isMutex := strings.HasPrefix(key, "sync.(*Mutex).") || strings.HasPrefix(key, "sync.(*RWMutex).") ||
		strings.HasPrefix(key, "github.com/sasha-s/go-deadlock.(*Mutex).") || strings.HasPrefix(key, "github.com/sasha-s/go-deadlock.(*RWMutex).")
	if isMutex && len(args) >= 1 {
		heap, idx, T, field, ok := X.lockOf(fr, st, args[0])
		if !ok {
			X.E.warn("%s: lock with unidentified receiver at %s", X.TopKey, X.pos(pos))
			return nil, true
		}
		ls := ArraySort(SInt, SInt)
		h := X.heap(st, heap, ls)
		cur := ts.Select(h, idx)
		lockName := srcName(cc.Args[0])
		switch callee.Name() {
		case "Lock", "RLock":
			if X.LockMode {
				X.oblige(st, "lockset", "", "no self-deadlock: "+lockName+" not already held at "+callee.Name(), pos, ts.Eq(cur, ts.IntLit(0)))
			} else {
				st.assume(ts, ts.Eq(cur, ts.IntLit(0)))
			}
			v := int64(1)
			if callee.Name() == "RLock" {
				v = 2
			}
			X.setHeap(st, heap, ls, ts.Store(h, idx, ts.IntLit(v)))
			X.monitor(fr, st, T, field, idx, true, pos)
			return nil, true
		case "Unlock", "RUnlock":
			want := int64(1)
			if callee.Name() == "RUnlock" {
				want = 2
			}
			if X.LockMode {
				X.oblige(st, "lockset", "", callee.Name()+" of a lock that is held: "+lockName, pos, ts.Eq(cur, ts.IntLit(want)))
			}
			X.monitor(fr, st, T, field, idx, false, pos)
			X.setHeap(st, heap, ls, ts.Store(h, idx, ts.IntLit(0)))
			return nil, true
		case "TryLock", "TryRLock":
			okv := ts.Fresh("trylock", SBool)
			X.setHeap(st, heap, ls, ts.Store(h, idx, ts.Ite(okv, ts.IntLit(1), cur)))
			return &Val{T: okv, GT: types.Typ[types.Bool]}, true
		}
	}
	switch key {
	case "sync.(*Once).Do":
		// the function runs at most once over all calls: here it either runs now or has run before
		f := args[1]
		ran := ts.Fresh("once.runs", SBool)
		with := st.Clone()
		with.branch(ts, ran)
		without := st.Clone()
		without.branch(ts, ts.Not(ran))
		X.callFuncValue(fr, ins, with, f, nil, "once")
		m := X.merge([]*State{with, without})
		*st = *m
		return nil, true
	case "sync.(*WaitGroup).Add", "sync.(*WaitGroup).Done", "sync.(*WaitGroup).Wait":
		return nil, true
	case "sync/atomic.(*Value).Store", "sync/atomic.(*Value).Load":
	}
	return nil, false
}

// callFuncValue calls a function value (closure known on this path or not).
func (X *Exec) callFuncValue(fr *Frame, ins ssa.Instruction, st *State, f *Val, args []*Val, tag string) *Val {
	clo := f.Clo
	if clo == nil && f.T != nil {
		clo = st.Clos[f.T]
	}
	if clo != nil {
		key := X.E.P.Keys[clo.Fn]
		if fs := X.E.Specs.Funcs[key]; fs != nil && !fs.Inline && (len(fs.Ensures) > 0 || len(fs.Requires) > 0 || fs.Pure || fs.ModAll || len(fs.Modifies) > 0) {
			fake := &ssa.CallCommon{Value: clo.Fn}
			X.pendingBindings = clo.Bindings
			return X.applyContract(fr, st, fs, clo.Fn, nil, fake, args, ins.Pos())
		}
		if clo.Fn.Blocks != nil && X.canInline(clo.Fn) {
			return X.inlineCall(fr, st, clo.Fn, clo.Bindings, args, ins.Pos())
		}
	}
	X.Uncontracted["func value ("+tag+")"]++
	X.havocAll(st, tag)
	return nil
}

// monitor: assume (at Lock) or assert (at Unlock) the invariants owned by the mutex.
func (X *Exec) monitor(fr *Frame, st *State, T types.Type, field string, obj *Term, acquire bool, pos token.Pos) {
	if T == nil {
		return
	}
	tspec := X.E.Specs.Types[typeSpecKey(T)]
	if tspec == nil {
		return
	}
	invs := tspec.Monitor[field]
	if len(invs) == 0 {
		return
	}
	this := &Val{T: obj, GT: types.NewPointer(T)}
	for _, inv := range invs {
		sc := X.clauseCtx(fr, st, map[string]*Val{"this": this}, fmt.Sprintf("%s:%d", inv.File, inv.Line))
		sc.Fr = nil
		if n, ok := T.(*types.Named); ok && n.Obj().Pkg() != nil {
			sc.Pkg = n.Obj().Pkg()
		}
		t := sc.EvalBool(inv.Expr)
		if acquire {
			st.assume(X.E.TS, t)
		} else {
			X.oblige(st, "mon", inv.Label, "monitor invariant of "+typeSpecKey(T)+"."+field+" re-established at unlock: "+inv.Src, pos, t)
		}
	}
}

// checkGuardedMapWrite: m[k] = v / delete(m, k) on a map read from a guarded field is a WRITE of what the mutex
// guards (lock mode only): it needs the write lock, a read lock is not enough.
func (X *Exec) checkGuardedMapWrite(fr *Frame, st *State, m ssa.Value, pos token.Pos) {
	if !X.LockMode {
		return
	}
	ld, ok := m.(*ssa.UnOp)
	if !ok || ld.Op != token.MUL {
		return
	}
	fa, ok := ld.X.(*ssa.FieldAddr)
	if !ok {
		return
	}
	v := fr.Regs[fa]
	if v == nil || v.A == nil {
		return
	}
	X.checkGuarded(fr, st, v.A, true, pos)
}

func typeSpecKey(T types.Type) string {
	if n, ok := T.(*types.Named); ok {
		pk := ""
		if n.Obj().Pkg() != nil {
			pk = shortPkg(n.Obj().Pkg().Path())
		}
		return pk + "." + n.Obj().Name()
	}
	return typeKey(T)
}

// checkGuarded: access to a guarded_by field needs its mutex (lock mode only).
func (X *Exec) checkGuarded(fr *Frame, st *State, a *Addr, write bool, pos token.Pos) {
	if !X.LockMode || a.Kind != AddrObj || len(a.Path) == 0 {
		return
	}
	sT := structOf(a.ObjT)
	if sT == nil {
		return
	}
	tspec := X.E.Specs.Types[typeSpecKey(a.ObjT)]
	if tspec == nil {
		return
	}
	fname := sT.Field(a.Path[0].Field).Name()
	ts := X.E.TS
	for mu, fields := range tspec.GuardedBy {
		for _, f := range fields {
			if f != fname {
				continue
			}
			n, _ := X.E.LockHeap(a.ObjT, mu)
			cur := ts.Select(X.heap(st, n, ArraySort(SInt, SInt)), a.Ref)
			// a mutex held through a pointer field (mu *sync.Mutex): the lock is identified by the pointer
			for k := 0; k < sT.NumFields(); k++ {
				if sT.Field(k).Name() == mu {
					if _, isPtr := sT.Field(k).Type().Underlying().(*types.Pointer); isPtr {
						fa := &Addr{Kind: AddrObj, Ref: a.Ref, ObjT: a.ObjT, T: sT.Field(k).Type(), Path: []PathElem{{Field: k}}}
						cur = ts.Select(X.heap(st, "LK|ptr", ArraySort(SInt, SInt)), X.load(st, fa))
					}
				}
			}
			var held *Term
			if write {
				held = ts.Eq(cur, ts.IntLit(1))
			} else {
				held = ts.Not(ts.Eq(cur, ts.IntLit(0)))
			}
			// objects allocated by this very call are not yet shared
			freshObj := ts.Not(ts.Select(X.preHeap(AllocHeap, ArraySort(SInt, SBool)), a.Ref))
			kind := "read"
			if write {
				kind = "write"
			}
			X.oblige(st, "lockset", "", fmt.Sprintf("%s of %s.%s with %s held", kind, typeSpecKey(a.ObjT), fname, mu), pos, ts.Or(held, freshObj))
		}
	}
}

package main

import (
	"fmt"
	"go/constant"
	"go/token"
	"go/types"
	"math/big"
	"strings"

	"golang.org/x/tools/go/ssa"
)

// ---------------------------------------------------------------------------
// fresh / zero / validity

func (X *Exec) zero(T types.Type) *Term {
	ts := X.E.TS
	srt := X.E.SortOf(T)
	switch {
	case srt.BV != 0:
		return ts.BVLit(big.NewInt(0), srt.BV)
	case srt.FP != 0:
		return ts.FPLitDecimal("0", srt)
	case srt == SInt:
		return ts.IntLit(0)
	case srt == SBool:
		return ts.False()
	case srt == SReal:
		return ts.RealLit("0.0")
	case srt == SStr:
		return X.E.StrLit("")
	case srt == SIface:
		return X.E.IfaceNil()
	case srt == X.E.SliceS:
		z := ts.IntLit(0)
		return ts.Ctor(srt, z, z, z, z)
	case srt.DT != nil:
		st := structOf(T)
		var args []*Term
		if st.NumFields() == 0 {
			args = append(args, ts.False())
		}
		for i := 0; i < st.NumFields(); i++ {
			args = append(args, X.zero(st.Field(i).Type()))
		}
		return ts.Ctor(srt, args...)
	case srt.Elem != nil:
		at := T.Underlying().(*types.Array)
		return ts.ConstArray(srt, X.zero(at.Elem()))
	}
	// uninterpreted (type parameters): a designated zero constant
	return ts.Const("zero~"+srt.Name, srt)
}

func (X *Exec) freshOfType(st *State, T types.Type, hint string) *Term {
	t := X.E.TS.Fresh(hint, X.E.SortOf(T))
	X.assumeValid(st, t, T, 0)
	return t
}

func (X *Exec) allocArr(st *State) *Term {
	return X.heap(st, AllocHeap, ArraySort(SInt, SBool))
}

// assumeValid adds what every well-typed Go value of type T satisfies.
func (X *Exec) assumeValid(st *State, t *Term, T types.Type, depth int) {
	if st == nil || depth > 2 {
		return
	}
	c := X.validity(st, t, T, depth)
	if c != nil {
		st.assume(X.E.TS, c)
	}
}

func (X *Exec) validity(st *State, t *Term, T types.Type, depth int) *Term {
	ts := X.E.TS
	if t.Op == "int" || t.Op == "ctor" && depth == 0 && false {
		return nil
	}
	switch u := T.Underlying().(type) {
	case *types.Basic:
		if t.Sort != SInt {
			return nil
		}
		if _, _, ok := intRange(T); ok {
			return X.E.inRange(t, T)
		}
	case *types.Slice:
		arr, off, ln, cp := ts.Sel(t, 0), ts.Sel(t, 1), ts.Sel(t, 2), ts.Sel(t, 3)
		z := ts.IntLit(0)
		maxInt := ts.BigLit(new(big.Int).Sub(new(big.Int).Lsh(big.NewInt(1), 63), big.NewInt(1)))
		return ts.And(ts.Le(z, off), ts.Le(z, ln), ts.Le(ln, cp), ts.Le(cp, maxInt), ts.Le(z, arr),
			ts.Implies(ts.Eq(arr, z), ts.And(ts.Eq(cp, z), ts.Eq(off, z))),
			ts.Implies(ts.Not(ts.Eq(arr, z)), ts.Select(X.allocArr(st), arr)))
	case *types.Pointer:
		// positive = reference to an allocated object; negative = address inside another object (see ptrTerm)
		z := ts.IntLit(0)
		return ts.Implies(ts.Lt(z, t), ts.Select(X.allocArr(st), t))
	case *types.Map, *types.Chan:
		z := ts.IntLit(0)
		return ts.And(ts.Le(z, t), ts.Implies(ts.Not(ts.Eq(t, z)), ts.Select(X.allocArr(st), t)))
	case *types.Signature:
		return ts.Le(ts.IntLit(0), t)
	case *types.Struct:
		if depth >= 2 || t.Sort.DT == nil {
			return nil
		}
		var cs []*Term
		for i := 0; i < u.NumFields(); i++ {
			if c := X.validity(st, ts.Sel(t, i), u.Field(i).Type(), depth+1); c != nil {
				cs = append(cs, c)
			}
		}
		return ts.And(cs...)
	}
	return nil
}

// newRef allocates a fresh non-nil reference.
func (X *Exec) newRef(st *State, hint string) *Term {
	ts := X.E.TS
	r := ts.Fresh(hint, SInt)
	ts.FreshRefs[r] = true
	al := X.allocArr(st)
	st.assume(ts, ts.And(ts.Lt(ts.IntLit(0), r), ts.Not(ts.Select(al, r))))
	X.setHeap(st, AllocHeap, ArraySort(SInt, SBool), ts.Store(al, r, ts.True()))
	return r
}

// ---------------------------------------------------------------------------
// constants and plain values

func (X *Exec) constTerm(c *ssa.Const) *Val {
	ts := X.E.TS
	T := c.Type()
	if c.Value == nil {
		// zero value / nil
		if _, ok := T.Underlying().(*types.Basic); ok && T.Underlying().(*types.Basic).Kind() == types.UntypedNil {
			return &Val{T: ts.IntLit(0), GT: T}
		}
		return &Val{T: X.zero(T), GT: T}
	}
	if X.E.BV {
		if b, ok := T.Underlying().(*types.Basic); ok && b.Info()&(types.IsInteger|types.IsFloat) != 0 && (c.Value.Kind() == constant.Int || c.Value.Kind() == constant.Float) {
			return &Val{T: X.bvConst(c.Value, T), GT: T}
		}
	}
	switch c.Value.Kind() {
	case constant.Bool:
		return &Val{T: ts.Bool(constant.BoolVal(c.Value)), GT: T}
	case constant.String:
		return &Val{T: X.E.StrLit(constant.StringVal(c.Value)), GT: T}
	case constant.Int:
		if b, ok := T.Underlying().(*types.Basic); ok && b.Info()&types.IsFloat != 0 {
			return &Val{T: ts.RealLit(c.Value.ExactString() + ".0"), GT: T}
		}
		v, _ := new(big.Int).SetString(c.Value.ExactString(), 10)
		return &Val{T: ts.BigLit(v), GT: T}
	case constant.Float:
		if b, ok := T.Underlying().(*types.Basic); ok && b.Info()&types.IsInteger != 0 {
			if i := constant.ToInt(c.Value); i.Kind() == constant.Int {
				v, _ := new(big.Int).SetString(i.ExactString(), 10)
				return &Val{T: ts.BigLit(v), GT: T}
			}
		}
		r := constant.ToFloat(c.Value)
		num, den := constant.Num(r), constant.Denom(r)
		s := fmt.Sprintf("(/ %s.0 %s.0)", strings.TrimPrefix(num.ExactString(), "-"), den.ExactString())
		if constant.Sign(r) < 0 {
			s = "(- " + s + ")"
		}
		return &Val{T: ts.RealLit(s), GT: T}
	}
	return &Val{T: ts.Fresh("const", X.E.SortOf(T)), GT: T}
}

func (X *Exec) funcConst(fn *ssa.Function) *Val {
	ts := X.E.TS
	name := "fn~" + sanitize(fn.String())
	t := ts.Const(name, SInt)
	ts.AddAxiomOnce(name, func() *Term { return ts.Eq(t, ts.IntLit(int64(1000000+len(axiomOnce)))) })
	return &Val{T: t, GT: fn.Type(), Clo: &Closure{Fn: fn}}
}

func (X *Exec) val(fr *Frame, v ssa.Value) *Val {
	switch x := v.(type) {
	case *ssa.Const:
		return X.constTerm(x)
	case *ssa.Function:
		return X.funcConst(x)
	case *ssa.Global:
		return &Val{A: &Addr{Kind: AddrGlobal, Glob: x, T: x.Type().(*types.Pointer).Elem()}, GT: x.Type()}
	case *ssa.Builtin:
		return &Val{GT: x.Type()}
	case *ssa.FreeVar:
		if r, ok := fr.Free[x]; ok {
			return r
		}
		panic("unbound free variable " + x.Name() + " in " + fr.Fn.String())
	}
	if r, ok := fr.Regs[v]; ok {
		return r
	}
	panic(fmt.Sprintf("value %s (%T) not computed in %s", v.Name(), v, fr.Fn))
}

// ---------------------------------------------------------------------------
// addresses

// addrOf turns a pointer value into an address to load from / store to. A nil-check obligation
// is emitted for first-class pointers.
func (X *Exec) addrOf(fr *Frame, st *State, p *Val, pos token.Pos, what string) *Addr {
	if p.A != nil {
		return p.A
	}
	ts := X.E.TS
	pt, ok := p.GT.Underlying().(*types.Pointer)
	if !ok {
		panic("addrOf non-pointer " + typeKey(p.GT))
	}
	X.oblige(st, "nil", "", "nil dereference: "+what, pos, ts.Not(ts.Eq(p.T, ts.IntLit(0))))
	el := pt.Elem()
	if at, ok := el.Underlying().(*types.Array); ok {
		_ = at
		return &Addr{Kind: AddrObj, Ref: p.T, ObjT: el, T: el}
	}
	return &Addr{Kind: AddrObj, Ref: p.T, ObjT: el, T: el}
}

func (X *Exec) applyPath(base *Term, path []PathElem) *Term {
	ts := X.E.TS
	for _, pe := range path {
		if pe.Index != nil {
			base = ts.Select(base, pe.Index)
		} else {
			base = ts.Sel(base, pe.Field)
		}
	}
	return base
}

func (X *Exec) updatePath(base *Term, path []PathElem, v *Term) *Term {
	ts := X.E.TS
	if len(path) == 0 {
		return v
	}
	pe := path[0]
	if pe.Index != nil {
		inner := X.updatePath(ts.Select(base, pe.Index), path[1:], v)
		return ts.Store(base, pe.Index, inner)
	}
	inner := X.updatePath(ts.Sel(base, pe.Field), path[1:], v)
	return ts.UpdateField(base, pe.Field, inner)
}

func (X *Exec) globalName(g *ssa.Global) string {
	return "GV|" + shortPkg(g.Pkg.Pkg.Path()) + "." + g.Name()
}

func (X *Exec) load(st *State, a *Addr) *Term {
	ts := X.E.TS
	switch a.Kind {
	case AddrCell:
		base, ok := st.Cells[a.Cell]
		if !ok {
			base = X.freshOfType(st, a.Cell.Type, "cell."+a.Cell.Name)
			st.Cells[a.Cell] = base
		}
		return X.applyPath(base, a.Path)
	case AddrGlobal:
		T := a.Glob.Type().(*types.Pointer).Elem()
		name := X.globalName(a.Glob)
		if _, isArr := T.Underlying().(*types.Array); isArr {
			panic("global array")
		}
		if c := X.immutableGlobalTerm(a.Glob); c != nil {
			return X.applyPath(c, a.Path)
		}
		base := X.heap(st, name, X.E.SortOf(T))
		return X.applyPath(base, a.Path)
	case AddrElem:
		n, s := X.E.ElemHeap(a.ObjT)
		base := ts.Select(ts.Select(X.heap(st, n, s), a.Arr), a.Idx)
		return X.applyPath(base, a.Path)
	case AddrObj:
		if sT := structOf(a.ObjT); sT != nil {
			if len(a.Path) == 0 {
				var args []*Term
				for i := 0; i < sT.NumFields(); i++ {
					n, s := X.E.FieldHeap(a.ObjT, i)
					args = append(args, ts.Select(X.heap(st, n, s), a.Ref))
				}
				if sT.NumFields() == 0 {
					args = append(args, ts.False())
				}
				return ts.Ctor(X.E.SortOf(a.ObjT), args...)
			}
			n, s := X.E.FieldHeap(a.ObjT, a.Path[0].Field)
			return X.applyPath(ts.Select(X.heap(st, n, s), a.Ref), a.Path[1:])
		}
		if at, ok := a.ObjT.Underlying().(*types.Array); ok {
			// pointer to array: the ref is a backing-array id
			n, s := X.E.ElemHeap(at.Elem())
			arr := ts.Select(X.heap(st, n, s), a.Ref)
			return X.applyPath(arr, a.Path)
		}
		n, s := X.E.CellHeap(a.ObjT)
		return X.applyPath(ts.Select(X.heap(st, n, s), a.Ref), a.Path)
	}
	panic("load: bad addr")
}

func (X *Exec) store(st *State, a *Addr, v *Term) {
	ts := X.E.TS
	switch a.Kind {
	case AddrCell:
		base := st.Cells[a.Cell]
		if base == nil {
			base = X.zero(a.Cell.Type)
		}
		st.Cells[a.Cell] = X.updatePath(base, a.Path, v)
	case AddrGlobal:
		T := a.Glob.Type().(*types.Pointer).Elem()
		name := X.globalName(a.Glob)
		srt := X.E.SortOf(T)
		X.setHeap(st, name, srt, X.updatePath(X.heap(st, name, srt), a.Path, v))
	case AddrElem:
		n, s := X.E.ElemHeap(a.ObjT)
		h := X.heap(st, n, s)
		arr := ts.Select(h, a.Arr)
		X.setHeap(st, n, s, ts.Store(h, a.Arr, ts.Store(arr, a.Idx, X.updatePath(ts.Select(arr, a.Idx), a.Path, v))))
	case AddrObj:
		if sT := structOf(a.ObjT); sT != nil {
			if len(a.Path) == 0 {
				for i := 0; i < sT.NumFields(); i++ {
					n, s := X.E.FieldHeap(a.ObjT, i)
					X.setHeap(st, n, s, ts.Store(X.heap(st, n, s), a.Ref, ts.Sel(v, i)))
				}
				return
			}
			n, s := X.E.FieldHeap(a.ObjT, a.Path[0].Field)
			h := X.heap(st, n, s)
			X.setHeap(st, n, s, ts.Store(h, a.Ref, X.updatePath(ts.Select(h, a.Ref), a.Path[1:], v)))
			return
		}
		if at, ok := a.ObjT.Underlying().(*types.Array); ok {
			n, s := X.E.ElemHeap(at.Elem())
			h := X.heap(st, n, s)
			X.setHeap(st, n, s, ts.Store(h, a.Ref, X.updatePath(ts.Select(h, a.Ref), a.Path, v)))
			return
		}
		n, s := X.E.CellHeap(a.ObjT)
		h := X.heap(st, n, s)
		X.setHeap(st, n, s, ts.Store(h, a.Ref, X.updatePath(ts.Select(h, a.Ref), a.Path, v)))
	}
}

// firstClass converts an address into a pointer term where that is possible.
func (X *Exec) firstClass(a *Addr) (*Term, bool) {
	if a.Kind == AddrObj && len(a.Path) == 0 {
		return a.Ref, true
	}
	return nil, false
}

// ptrTerm: pointer Val as a term; Go-side addresses that are not first class become an opaque
// non-nil constant (identity unknown) and a warning.
func (X *Exec) ptrTerm(st *State, v *Val, why string) *Term {
	if v.T != nil {
		return v.T
	}
	if v.A != nil {
		if t, ok := X.firstClass(v.A); ok {
			return t
		}
		// an address inside an array element or field is not an allocated object reference: it is modelled as a
		// NEGATIVE number (object references are positive), so it can never be equal to a pointer obtained from new/&x
		ts := X.E.TS
		t := ts.Fresh("iaddr", SInt)
		st.assume(ts, ts.Lt(t, ts.IntLit(0)))
		X.E.warn("%s: interior address used as a value (%s): identity abstracted (distinct from every object reference)", X.TopKey, why)
		return t
	}
	panic("ptrTerm: empty value")
}

// sliceElemType of a slice-typed or string-typed go type
func sliceElem(T types.Type) types.Type {
	switch u := T.Underlying().(type) {
	case *types.Slice:
		return u.Elem()
	case *types.Array:
		return u.Elem()
	case *types.Pointer:
		if a, ok := u.Elem().Underlying().(*types.Array); ok {
			return a.Elem()
		}
	}
	return nil
}

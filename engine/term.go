package main

import (
	"fmt"
	"math/big"
	"os"
	"sort"
	"strings"
)

// ---------------------------------------------------------------------------
// Sorts

type Sort struct {
	Name string // SMT-LIB text of the sort
	// for arrays
	Idx, Elem *Sort
	// for datatypes: constructor and selectors
	DT *Datatype
	BV int // bit-vector width (bv mode)
	FP int // 32 / 64: IEEE float (bv mode)
}

type Datatype struct {
	Name   string
	Ctor   string
	Fields []DTField
}

type DTField struct {
	Sel  string
	Sort *Sort
}

var (
	SInt   = &Sort{Name: "Int"}
	SBool  = &Sort{Name: "Bool"}
	SReal  = &Sort{Name: "Real"}
	SStr   = &Sort{Name: "Str"}   // uninterpreted: Go strings
	SIface = &Sort{Name: "Iface"} // uninterpreted: Go interface values
)

var arraySorts = map[string]*Sort{}

func ArraySort(idx, elem *Sort) *Sort {
	n := "(Array " + idx.Name + " " + elem.Name + ")"
	if s, ok := arraySorts[n]; ok {
		return s
	}
	s := &Sort{Name: n, Idx: idx, Elem: elem}
	arraySorts[n] = s
	return s
}

// ---------------------------------------------------------------------------
// Terms (hash-consed DAG)

type Term struct {
	Op    string // see mk* functions
	Name  string // for const / app / sel / ctor / bound / quantifier var lists
	Args  []*Term
	Sort  *Sort
	Int   *big.Int
	Bound []*Term   // forall/exists: bound variables (Op "bound")
	Pats  [][]*Term // forall/exists: patterns
	id    int
	hasBV bool // contains a bound variable (cannot be hoisted)
	size  int
}

type TermStore struct {
	tab  map[string]*Term
	next int
	// declared symbols
	Consts map[string]*Sort
	Funcs  map[string]*FuncDecl
	DTs    []*Sort
	USorts []string
	// axioms keyed by the symbol that brings them in
	Axioms map[string][]*Term
	// constants that stand for objects allocated during the run: pairwise distinct
	FreshRefs map[*Term]bool
	fresh     map[string]int
}

type FuncDecl struct {
	Name string
	Args []*Sort
	Res  *Sort
	// optional definition (macro-like define-fun is not used; definitions are axioms)
}

func NewTermStore() *TermStore {
	return &TermStore{tab: map[string]*Term{}, Consts: map[string]*Sort{}, Funcs: map[string]*FuncDecl{}, Axioms: map[string][]*Term{}, FreshRefs: map[*Term]bool{}, fresh: map[string]int{}}
}

func (ts *TermStore) intern(t *Term) *Term {
	var sb strings.Builder
	sb.WriteString(t.Op)
	sb.WriteByte('|')
	sb.WriteString(t.Name)
	sb.WriteByte('|')
	if t.Int != nil {
		sb.WriteString(t.Int.String())
	}
	sb.WriteByte('|')
	sb.WriteString(t.Sort.Name)
	for _, a := range t.Args {
		fmt.Fprintf(&sb, ",%d", a.id)
	}
	if len(t.Bound) > 0 {
		sb.WriteString("|B")
		for _, a := range t.Bound {
			fmt.Fprintf(&sb, ",%d", a.id)
		}
		for _, p := range t.Pats {
			sb.WriteString("|P")
			for _, a := range p {
				fmt.Fprintf(&sb, ",%d", a.id)
			}
		}
	}
	k := sb.String()
	if x, ok := ts.tab[k]; ok {
		return x
	}
	ts.next++
	t.id = ts.next
	t.size = 1
	for _, a := range t.Args {
		t.size += a.size
		if a.hasBV {
			t.hasBV = true
		}
	}
	if t.Op == "bound" {
		t.hasBV = true
	}
	if t.size > 1<<30 {
		t.size = 1 << 30
	}
	ts.tab[k] = t
	return t
}

func (ts *TermStore) Const(name string, s *Sort) *Term {
	if old, ok := ts.Consts[name]; ok && old != s {
		panic(fmt.Sprintf("const %s redeclared with sort %s (was %s)", name, s.Name, old.Name))
	}
	ts.Consts[name] = s
	return ts.intern(&Term{Op: "const", Name: name, Sort: s})
}

// Fresh returns a new constant whose name starts with prefix.
func (ts *TermStore) Fresh(prefix string, s *Sort) *Term {
	prefix = sanitize(prefix)
	ts.fresh[prefix]++
	return ts.Const(fmt.Sprintf("%s!%d", prefix, ts.fresh[prefix]), s)
}

func (ts *TermStore) BoundVar(name string, s *Sort) *Term {
	ts.fresh["$bv"]++
	return ts.intern(&Term{Op: "bound", Name: fmt.Sprintf("%s$%d", sanitize(name), ts.fresh["$bv"]), Sort: s})
}

func (ts *TermStore) DeclareFunc(name string, args []*Sort, res *Sort) *FuncDecl {
	if f, ok := ts.Funcs[name]; ok {
		return f
	}
	f := &FuncDecl{Name: name, Args: args, Res: res}
	ts.Funcs[name] = f
	return f
}

func (ts *TermStore) App(name string, res *Sort, args ...*Term) *Term {
	if _, ok := ts.Funcs[name]; !ok {
		var as []*Sort
		for _, a := range args {
			as = append(as, a.Sort)
		}
		ts.DeclareFunc(name, as, res)
	}
	return ts.intern(&Term{Op: "app", Name: name, Args: args, Sort: res})
}

func (ts *TermStore) True() *Term  { return ts.intern(&Term{Op: "true", Sort: SBool}) }
func (ts *TermStore) False() *Term { return ts.intern(&Term{Op: "false", Sort: SBool}) }
func (ts *TermStore) Bool(b bool) *Term {
	if b {
		return ts.True()
	}
	return ts.False()
}
func (ts *TermStore) IntLit(v int64) *Term { return ts.BigLit(big.NewInt(v)) }
func (ts *TermStore) BigLit(v *big.Int) *Term {
	return ts.intern(&Term{Op: "int", Int: new(big.Int).Set(v), Sort: SInt})
}
func (ts *TermStore) RealLit(s string) *Term {
	return ts.intern(&Term{Op: "real", Name: s, Sort: SReal})
}

func isTrue(t *Term) bool  { return t.Op == "true" }
func isFalse(t *Term) bool { return t.Op == "false" }

func (ts *TermStore) Not(a *Term) *Term {
	switch a.Op {
	case "true":
		return ts.False()
	case "false":
		return ts.True()
	case "not":
		return a.Args[0]
	}
	return ts.intern(&Term{Op: "not", Args: []*Term{a}, Sort: SBool})
}

func (ts *TermStore) And(as ...*Term) *Term {
	var out []*Term
	seen := map[int]bool{}
	for _, a := range as {
		if a == nil || isTrue(a) {
			continue
		}
		if isFalse(a) {
			return ts.False()
		}
		if a.Op == "and" {
			for _, b := range a.Args {
				if !seen[b.id] {
					seen[b.id] = true
					out = append(out, b)
				}
			}
			continue
		}
		if !seen[a.id] {
			seen[a.id] = true
			out = append(out, a)
		}
	}
	for _, a := range out {
		if a.Op == "not" && seen[a.Args[0].id] {
			return ts.False()
		}
	}
	switch len(out) {
	case 0:
		return ts.True()
	case 1:
		return out[0]
	}
	return ts.intern(&Term{Op: "and", Args: out, Sort: SBool})
}

func (ts *TermStore) Or(as ...*Term) *Term {
	var out []*Term
	seen := map[int]bool{}
	for _, a := range as {
		if a == nil || isFalse(a) {
			continue
		}
		if isTrue(a) {
			return ts.True()
		}
		if a.Op == "or" {
			for _, b := range a.Args {
				if !seen[b.id] {
					seen[b.id] = true
					out = append(out, b)
				}
			}
			continue
		}
		if !seen[a.id] {
			seen[a.id] = true
			out = append(out, a)
		}
	}
	for _, a := range out {
		if a.Op == "not" && seen[a.Args[0].id] {
			return ts.True()
		}
	}
	switch len(out) {
	case 0:
		return ts.False()
	case 1:
		return out[0]
	}
	// factor a common conjunct prefix: (a & b) | (a & c)  ==  a & (b | c)
	if len(out) == 2 && out[0].Op == "and" && out[1].Op == "and" {
		x, y := out[0].Args, out[1].Args
		n := 0
		for n < len(x) && n < len(y) && x[n] == y[n] {
			n++
		}
		if n > 0 {
			common := append([]*Term{}, x[:n]...)
			rest := ts.Or(ts.And(x[n:]...), ts.And(y[n:]...))
			return ts.And(append(common, rest)...)
		}
	}
	return ts.intern(&Term{Op: "or", Args: out, Sort: SBool})
}

func (ts *TermStore) Implies(a, b *Term) *Term {
	if isTrue(a) {
		return b
	}
	if isFalse(a) || isTrue(b) {
		return ts.True()
	}
	if isFalse(b) {
		return ts.Not(a)
	}
	return ts.intern(&Term{Op: "=>", Args: []*Term{a, b}, Sort: SBool})
}

func (ts *TermStore) Ite(c, a, b *Term) *Term {
	if isTrue(c) {
		return a
	}
	if isFalse(c) {
		return b
	}
	if a == b {
		return a
	}
	if a.Sort != b.Sort {
		panic(fmt.Sprintf("ite sort mismatch %s vs %s", a.Sort.Name, b.Sort.Name))
	}
	if a.Sort == SBool {
		if isTrue(a) && isFalse(b) {
			return c
		}
		if isFalse(a) && isTrue(b) {
			return ts.Not(c)
		}
	}
	return ts.intern(&Term{Op: "ite", Args: []*Term{c, a, b}, Sort: a.Sort})
}

func (ts *TermStore) Eq(a, b *Term) *Term {
	if a == b {
		return ts.True()
	}
	if a.Sort != b.Sort {
		panic(fmt.Sprintf("eq sort mismatch %s vs %s (%s, %s)", a.Sort.Name, b.Sort.Name, ts.Show(a), ts.Show(b)))
	}
	if a.Op == "int" && b.Op == "int" {
		return ts.Bool(a.Int.Cmp(b.Int) == 0)
	}
	if a.Sort == SBool {
		if isTrue(a) {
			return b
		}
		if isTrue(b) {
			return a
		}
		if isFalse(a) {
			return ts.Not(b)
		}
		if isFalse(b) {
			return ts.Not(a)
		}
	}
	if a.id > b.id {
		a, b = b, a
	}
	return ts.intern(&Term{Op: "=", Args: []*Term{a, b}, Sort: SBool})
}

func (ts *TermStore) Ne(a, b *Term) *Term { return ts.Not(ts.Eq(a, b)) }

func (ts *TermStore) arith(op string, a, b *Term) *Term {
	if a.Op == "int" && b.Op == "int" {
		r := new(big.Int)
		switch op {
		case "+":
			return ts.BigLit(r.Add(a.Int, b.Int))
		case "-":
			return ts.BigLit(r.Sub(a.Int, b.Int))
		case "*":
			return ts.BigLit(r.Mul(a.Int, b.Int))
		case "div":
			if b.Int.Sign() != 0 {
				// SMT-LIB div: floor for positive divisor (euclidean)
				m := new(big.Int)
				r.DivMod(a.Int, b.Int, m)
				return ts.BigLit(r)
			}
		case "mod":
			if b.Int.Sign() != 0 {
				m := new(big.Int)
				r.DivMod(a.Int, b.Int, m)
				return ts.BigLit(m)
			}
		}
	}
	switch op {
	case "+":
		if a.Op == "int" && a.Int.Sign() == 0 {
			return b
		}
		if b.Op == "int" && b.Int.Sign() == 0 {
			return a
		}
		// (x + c1) + c2
		if b.Op == "int" && a.Op == "+" && len(a.Args) == 2 && a.Args[1].Op == "int" {
			return ts.arith("+", a.Args[0], ts.BigLit(new(big.Int).Add(a.Args[1].Int, b.Int)))
		}
		if b.Op == "int" && a.Op == "-" && len(a.Args) == 2 && a.Args[1].Op == "int" {
			return ts.arith("+", a.Args[0], ts.BigLit(new(big.Int).Sub(b.Int, a.Args[1].Int)))
		}
	case "-":
		if b.Op == "int" && b.Int.Sign() == 0 {
			return a
		}
		if a == b {
			return ts.IntLit(0)
		}
		if b.Op == "int" {
			return ts.arith("+", a, ts.BigLit(new(big.Int).Neg(b.Int)))
		}
	case "*":
		if a.Op == "int" && a.Int.Cmp(big.NewInt(1)) == 0 {
			return b
		}
		if b.Op == "int" && b.Int.Cmp(big.NewInt(1)) == 0 {
			return a
		}
		if (a.Op == "int" && a.Int.Sign() == 0) || (b.Op == "int" && b.Int.Sign() == 0) {
			return ts.IntLit(0)
		}
	case "div":
		if b.Op == "int" && b.Int.Cmp(big.NewInt(1)) == 0 {
			return a
		}
	}
	return ts.intern(&Term{Op: op, Args: []*Term{a, b}, Sort: a.Sort})
}

func (ts *TermStore) Add(a, b *Term) *Term { return ts.arith("+", a, b) }
func (ts *TermStore) Sub(a, b *Term) *Term { return ts.arith("-", a, b) }
func (ts *TermStore) Mul(a, b *Term) *Term { return ts.arith("*", a, b) }
func (ts *TermStore) Div(a, b *Term) *Term { return ts.arith("div", a, b) }
func (ts *TermStore) Mod(a, b *Term) *Term { return ts.arith("mod", a, b) }
func (ts *TermStore) Neg(a *Term) *Term    { return ts.Sub(ts.IntLit(0), a) }

func (ts *TermStore) cmp(op string, a, b *Term) *Term {
	if a.Op == "int" && b.Op == "int" {
		c := a.Int.Cmp(b.Int)
		switch op {
		case "<":
			return ts.Bool(c < 0)
		case "<=":
			return ts.Bool(c <= 0)
		}
	}
	if a == b {
		return ts.Bool(op == "<=")
	}
	return ts.intern(&Term{Op: op, Args: []*Term{a, b}, Sort: SBool})
}
func (ts *TermStore) Lt(a, b *Term) *Term { return ts.cmp("<", a, b) }
func (ts *TermStore) Le(a, b *Term) *Term { return ts.cmp("<=", a, b) }
func (ts *TermStore) Gt(a, b *Term) *Term { return ts.cmp("<", b, a) }
func (ts *TermStore) Ge(a, b *Term) *Term { return ts.cmp("<=", b, a) }

func (ts *TermStore) Select(a, i *Term) *Term {
	if a.Sort.Elem == nil {
		panic("select on non-array " + a.Sort.Name + ": " + ts.Show(a))
	}
	if i.Sort != a.Sort.Idx {
		panic(fmt.Sprintf("select index sort %s, array %s", i.Sort.Name, a.Sort.Name))
	}
	// read-over-write with syntactically decidable indices
	for a.Op == "store" {
		j := a.Args[1]
		if j == i {
			return a.Args[2]
		}
		if i.Op == "int" && j.Op == "int" { // distinct literals
			a = a.Args[0]
			continue
		}
		if ts.distinctOffsets(i, j) {
			a = a.Args[0]
			continue
		}
		if i != j && ts.FreshRefs[i] && ts.FreshRefs[j] && os.Getenv("GOVC_NOFRESH") == "" { // two different allocations
			a = a.Args[0]
			continue
		}
		break
	}
	if a.Op == "constarr" {
		return a.Args[0]
	}
	if a.Op == "ite" && (a.Args[1].Op == "store" || a.Args[2].Op == "store" || a.Args[1].Op == "ite" || a.Args[2].Op == "ite") && a.size < 20000 {
		x, y := ts.Select(a.Args[1], i), ts.Select(a.Args[2], i)
		return ts.Ite(a.Args[0], x, y)
	}
	return ts.intern(&Term{Op: "select", Args: []*Term{a, i}, Sort: a.Sort.Elem})
}

// distinctOffsets: i = x + c1, j = x + c2 with c1 != c2
func (ts *TermStore) distinctOffsets(i, j *Term) bool {
	if i.Op == "app" && j.Op == "app" && i.Name == "elem.idx" && j.Name == "elem.idx" && i.Args[0] == j.Args[0] {
		a, b := i.Args[1], j.Args[1]
		if a.Op == "int" && b.Op == "int" {
			return a.Int.Cmp(b.Int) != 0
		}
		return ts.distinctOffsets(a, b)
	}
	bi, ci := splitOffset(i)
	bj, cj := splitOffset(j)
	return bi == bj && bi != nil && ci.Cmp(cj) != 0
}

func splitOffset(t *Term) (*Term, *big.Int) {
	if t.Op == "+" && t.Args[1].Op == "int" {
		return t.Args[0], t.Args[1].Int
	}
	if t.Op == "int" {
		return nil, t.Int
	}
	return t, big.NewInt(0)
}

func (ts *TermStore) Store(a, i, v *Term) *Term {
	if a.Sort.Elem == nil {
		panic("store on non-array " + a.Sort.Name)
	}
	if v.Sort != a.Sort.Elem {
		panic(fmt.Sprintf("store elem sort %s into %s", v.Sort.Name, a.Sort.Name))
	}
	if i.Sort != a.Sort.Idx {
		panic(fmt.Sprintf("store index sort %s, array %s", i.Sort.Name, a.Sort.Name))
	}
	if a.Op == "store" && a.Args[1] == i {
		a = a.Args[0]
	}
	return ts.intern(&Term{Op: "store", Args: []*Term{a, i, v}, Sort: a.Sort})
}

func (ts *TermStore) ConstArray(s *Sort, v *Term) *Term {
	return ts.intern(&Term{Op: "constarr", Args: []*Term{v}, Sort: s})
}

// datatypes
func (ts *TermStore) Ctor(s *Sort, args ...*Term) *Term {
	if len(args) != len(s.DT.Fields) {
		panic("ctor arity " + s.Name)
	}
	// eta: mk(sel0(x), sel1(x), ...) == x
	if len(args) > 0 && args[0].Op == "sel" && args[0].Int != nil && args[0].Int.Int64() == 0 && args[0].Args[0].Sort == s {
		x := args[0].Args[0]
		all := true
		for i, a := range args {
			if !(a.Op == "sel" && a.Args[0] == x && a.Int.Int64() == int64(i)) {
				all = false
				break
			}
		}
		if all {
			return x
		}
	}
	return ts.intern(&Term{Op: "ctor", Name: s.DT.Ctor, Args: args, Sort: s})
}

func (ts *TermStore) Sel(x *Term, i int) *Term {
	dt := x.Sort.DT
	if dt == nil {
		panic("sel on non-datatype " + x.Sort.Name)
	}
	if x.Op == "ctor" {
		return x.Args[i]
	}
	if x.Op == "ite" {
		// push selectors through ite when a branch is a constructor (keeps terms small)
		if x.Args[1].Op == "ctor" || x.Args[2].Op == "ctor" {
			return ts.Ite(x.Args[0], ts.Sel(x.Args[1], i), ts.Sel(x.Args[2], i))
		}
	}
	return ts.intern(&Term{Op: "sel", Name: dt.Fields[i].Sel, Int: big.NewInt(int64(i)), Args: []*Term{x}, Sort: dt.Fields[i].Sort})
}

func (ts *TermStore) UpdateField(x *Term, i int, v *Term) *Term {
	dt := x.Sort.DT
	args := make([]*Term, len(dt.Fields))
	for k := range dt.Fields {
		if k == i {
			args[k] = v
		} else {
			args[k] = ts.Sel(x, k)
		}
	}
	return ts.Ctor(x.Sort, args...)
}

func (ts *TermStore) Quant(op string, bound []*Term, body *Term, pats [][]*Term) *Term {
	if isTrue(body) || isFalse(body) {
		return body
	}
	if len(bound) == 0 {
		return body
	}
	// patterns may not contain boolean structure or ite, and must mention every bound variable
	var okPats [][]*Term
	for _, p := range pats {
		ok := len(p) > 0
		vars := map[int]bool{}
		for _, q := range p {
			if !patternOK(q) {
				ok = false
			}
			collectBound(q, vars, map[int]bool{})
		}
		for _, b := range bound {
			if !vars[b.id] {
				ok = false
			}
		}
		if ok {
			okPats = append(okPats, p)
		}
	}
	pats = okPats
	t := ts.intern(&Term{Op: op, Bound: bound, Args: []*Term{body}, Pats: pats, Sort: SBool})
	// a closed quantifier does not leak bound variables
	t.hasBV = false
	free := map[int]bool{}
	collectBound(body, free, map[int]bool{})
	for _, p := range pats {
		for _, q := range p {
			collectBound(q, free, map[int]bool{})
		}
	}
	for _, b := range bound {
		delete(free, b.id)
	}
	if len(free) > 0 {
		t.hasBV = true
	}
	return t
}

func collectBound(t *Term, out map[int]bool, seen map[int]bool) {
	if seen[t.id] || !t.hasBV {
		return
	}
	seen[t.id] = true
	if t.Op == "bound" {
		out[t.id] = true
		return
	}
	if t.Op == "forall" || t.Op == "exists" {
		inner := map[int]bool{}
		collectBound(t.Args[0], inner, map[int]bool{})
		for _, b := range t.Bound {
			delete(inner, b.id)
		}
		for k := range inner {
			out[k] = true
		}
		return
	}
	for _, a := range t.Args {
		collectBound(a, out, seen)
	}
}

func (ts *TermStore) Forall(bound []*Term, body *Term, pats ...[]*Term) *Term {
	return ts.Quant("forall", bound, body, pats)
}
func (ts *TermStore) Exists(bound []*Term, body *Term, pats ...[]*Term) *Term {
	return ts.Quant("exists", bound, body, pats)
}

// Subst replaces terms (by identity) throughout t.
func (ts *TermStore) Subst(t *Term, m map[*Term]*Term) *Term {
	cache := map[*Term]*Term{}
	var rec func(t *Term) *Term
	rec = func(t *Term) *Term {
		if r, ok := m[t]; ok {
			return r
		}
		if r, ok := cache[t]; ok {
			return r
		}
		if len(t.Args) == 0 {
			return t
		}
		args := make([]*Term, len(t.Args))
		changed := false
		for i, a := range t.Args {
			args[i] = rec(a)
			if args[i] != a {
				changed = true
			}
		}
		var pats [][]*Term
		for _, p := range t.Pats {
			var np []*Term
			for _, q := range p {
				nq := rec(q)
				if nq != q {
					changed = true
				}
				np = append(np, nq)
			}
			pats = append(pats, np)
		}
		r := t
		if changed {
			r = ts.rebuild(t, args, pats)
		}
		cache[t] = r
		return r
	}
	return rec(t)
}

func (ts *TermStore) rebuild(t *Term, args []*Term, pats [][]*Term) *Term {
	switch t.Op {
	case "not":
		return ts.Not(args[0])
	case "and":
		return ts.And(args...)
	case "or":
		return ts.Or(args...)
	case "=>":
		return ts.Implies(args[0], args[1])
	case "ite":
		return ts.Ite(args[0], args[1], args[2])
	case "=":
		return ts.Eq(args[0], args[1])
	case "+", "-", "*", "div", "mod":
		return ts.arith(t.Op, args[0], args[1])
	case "<", "<=":
		return ts.cmp(t.Op, args[0], args[1])
	case "select":
		return ts.Select(args[0], args[1])
	case "store":
		return ts.Store(args[0], args[1], args[2])
	case "ctor":
		return ts.Ctor(t.Sort, args...)
	case "sel":
		return ts.Sel(args[0], int(t.Int.Int64()))
	case "forall", "exists":
		return ts.Quant(t.Op, t.Bound, args[0], pats)
	case "app":
		return ts.App(t.Name, t.Sort, args...)
	case "constarr":
		return ts.ConstArray(t.Sort, args[0])
	}
	return ts.intern(&Term{Op: t.Op, Name: t.Name, Args: args, Sort: t.Sort, Int: t.Int})
}

// ---------------------------------------------------------------------------
// Printing

func sanitize(s string) string {
	var sb strings.Builder
	for _, r := range s {
		switch {
		case r >= 'a' && r <= 'z', r >= 'A' && r <= 'Z', r >= '0' && r <= '9', r == '_', r == '.', r == '!', r == '$', r == '@', r == '%', r == '^', r == '&', r == '~', r == '?', r == '/', r == '-', r == '+':
			sb.WriteRune(r)
		case r == '*':
			sb.WriteString("^")
		case r == '[' || r == ']':
			sb.WriteString("%")
		case r == '(' || r == ')' || r == ' ' || r == ',' || r == '{' || r == '}' || r == ';':
			sb.WriteString("_")
		case r == '|' || r == '\\':
			sb.WriteString("_")
		default:
			fmt.Fprintf(&sb, "u%x", r)
		}
	}
	return sb.String()
}

func sym(s string) string {
	// names may contain characters SMT-LIB simple symbols do not allow: map them
	t := sanitize(s)
	if t == "" || (t[0] >= '0' && t[0] <= '9') {
		return "_" + t
	}
	return t
}

// Show prints a term for humans (no sharing).
func (ts *TermStore) Show(t *Term) string {
	var sb strings.Builder
	ts.print(&sb, t, nil, 0)
	s := sb.String()
	if len(s) > 2000 {
		s = s[:2000] + "…"
	}
	return s
}

func (ts *TermStore) print(sb *strings.Builder, t *Term, names map[int]string, depth int) {
	if names != nil {
		if n, ok := names[t.id]; ok {
			sb.WriteString(n)
			return
		}
	}
	if depth > 400 {
		sb.WriteString("<deep>")
		return
	}
	switch t.Op {
	case "const", "bound":
		sb.WriteString(sym(t.Name))
	case "true", "false":
		sb.WriteString(t.Op)
	case "int":
		if t.Int.Sign() < 0 {
			sb.WriteString("(- " + new(big.Int).Neg(t.Int).String() + ")")
		} else {
			sb.WriteString(t.Int.String())
		}
	case "real", "rawlit":
		sb.WriteString(t.Name)
	case "raw":
		if len(t.Args) == 0 {
			sb.WriteString("(" + t.Name + ")")
			return
		}
		sb.WriteString("(" + t.Name)
		for _, a := range t.Args {
			sb.WriteByte(' ')
			ts.print(sb, a, names, depth+1)
		}
		sb.WriteString(")")
	case "forall", "exists":
		sb.WriteString("(" + t.Op + " (")
		for _, b := range t.Bound {
			sb.WriteString("(" + sym(b.Name) + " " + b.Sort.Name + ") ")
		}
		sb.WriteString(") ")
		if len(t.Pats) > 0 {
			sb.WriteString("(! ")
		}
		ts.print(sb, t.Args[0], names, depth+1)
		if len(t.Pats) > 0 {
			for _, p := range t.Pats {
				sb.WriteString(" :pattern (")
				for i, q := range p {
					if i > 0 {
						sb.WriteByte(' ')
					}
					ts.print(sb, q, names, depth+1)
				}
				sb.WriteString(")")
			}
			sb.WriteString(")")
		}
		sb.WriteString(")")
	case "constarr":
		sb.WriteString("((as const " + t.Sort.Name + ") ")
		ts.print(sb, t.Args[0], names, depth+1)
		sb.WriteString(")")
	default:
		name := t.Op
		if t.Op == "app" || t.Op == "ctor" || t.Op == "sel" {
			name = sym(t.Name)
		}
		if len(t.Args) == 0 {
			sb.WriteString(name)
			return
		}
		sb.WriteString("(" + name)
		for _, a := range t.Args {
			sb.WriteByte(' ')
			ts.print(sb, a, names, depth+1)
		}
		sb.WriteString(")")
	}
}

// Query renders a complete SMT-LIB script asserting each of `asserts`, with shared closed sub-terms
// hoisted into define-fun's, declarations for all symbols used, and the axioms they bring in.
func (ts *TermStore) Query(asserts []*Term, opts QueryOpts) string {
	// 1. transitive closure over symbols -> axioms
	used := map[string]bool{}
	var all []*Term
	seen := map[int]bool{}
	var visit func(t *Term)
	var pending []*Term
	visit = func(t *Term) {
		if seen[t.id] {
			return
		}
		seen[t.id] = true
		switch t.Op {
		case "const", "app":
			if !used[t.Name] {
				used[t.Name] = true
				pending = append(pending, ts.Axioms[t.Name]...)
			}
		}
		ts.noteSort(t.Sort, used, &pending)
		for _, a := range t.Args {
			visit(a)
		}
		for _, b := range t.Bound {
			ts.noteSort(b.Sort, used, &pending)
		}
		for _, p := range t.Pats {
			for _, q := range p {
				visit(q)
			}
		}
	}
	for _, a := range asserts {
		visit(a)
		all = append(all, a)
	}
	var axioms []*Term
	axSeen := map[int]bool{}
	for len(pending) > 0 {
		ax := pending[0]
		pending = pending[1:]
		if axSeen[ax.id] {
			continue
		}
		axSeen[ax.id] = true
		if opts.NoQuantAxioms && containsQuant(ax) {
			continue
		}
		visit(ax)
		axioms = append(axioms, ax)
	}
	all = append(axioms, all...)

	// 2. reference counts for hoisting
	refs := map[int]int{}
	order := []*Term{}
	var count func(t *Term)
	count = func(t *Term) {
		refs[t.id]++
		if refs[t.id] > 1 {
			return
		}
		for _, a := range t.Args {
			count(a)
		}
		for _, p := range t.Pats {
			for _, q := range p {
				count(q)
			}
		}
		order = append(order, t) // post-order
	}
	for _, a := range all {
		count(a)
	}

	var sb strings.Builder
	if opts.CVC5 {
		sb.WriteString("(set-option :produce-models true)\n(set-logic ALL)\n")
	} else {
		sb.WriteString("(set-option :produce-models true)\n")
		if opts.Z3Opts != "" {
			sb.WriteString(opts.Z3Opts)
		}
	}
	// sorts
	sb.WriteString("(declare-sort Str 0)\n(declare-sort Iface 0)\n")
	for _, u := range ts.USorts {
		sb.WriteString("(declare-sort " + u + " 0)\n")
	}
	for _, d := range ts.DTs {
		if !used["sort:"+d.Name] {
			continue
		}
		sb.WriteString("(declare-datatypes ((" + d.Name + " 0)) (((" + sym(d.DT.Ctor))
		for _, f := range d.DT.Fields {
			sb.WriteString(" (" + sym(f.Sel) + " " + f.Sort.Name + ")")
		}
		sb.WriteString("))))\n")
	}
	var cn []string
	for n := range ts.Consts {
		if used[n] {
			cn = append(cn, n)
		}
	}
	sort.Strings(cn)
	for _, n := range cn {
		sb.WriteString("(declare-fun " + sym(n) + " () " + ts.Consts[n].Name + ")\n")
	}
	var fn []string
	for n := range ts.Funcs {
		if used[n] {
			fn = append(fn, n)
		}
	}
	sort.Strings(fn)
	for _, n := range fn {
		f := ts.Funcs[n]
		sb.WriteString("(declare-fun " + sym(n) + " (")
		for i, a := range f.Args {
			if i > 0 {
				sb.WriteByte(' ')
			}
			sb.WriteString(a.Name)
		}
		sb.WriteString(") " + f.Res.Name + ")\n")
	}
	// hoisted definitions
	names := map[int]string{}
	for _, t := range order {
		if refs[t.id] > 1 && !t.hasBV && len(t.Args) > 0 && t.size > 3 {
			var b strings.Builder
			ts.print(&b, t, names, 0)
			n := fmt.Sprintf("$t%d", t.id)
			sb.WriteString("(define-fun " + n + " () " + t.Sort.Name + " " + b.String() + ")\n")
			names[t.id] = n
		}
	}
	for _, a := range axioms {
		sb.WriteString("(assert ")
		ts.print(&sb, a, names, 0)
		sb.WriteString(")\n")
	}
	for i, a := range asserts {
		if i < len(opts.Comments) && opts.Comments[i] != "" {
			sb.WriteString("; " + strings.ReplaceAll(opts.Comments[i], "\n", " ") + "\n")
		}
		sb.WriteString("(assert ")
		ts.print(&sb, a, names, 0)
		sb.WriteString(")\n")
	}
	sb.WriteString("(check-sat)\n")
	if len(opts.GetValues) > 0 {
		sb.WriteString("(get-value (")
		for _, v := range opts.GetValues {
			ts.print(&sb, v, names, 0)
			sb.WriteByte(' ')
		}
		sb.WriteString("))\n")
	}
	return sb.String()
}

func (ts *TermStore) noteSort(s *Sort, used map[string]bool, pending *[]*Term) {
	if s == nil {
		return
	}
	if s.DT != nil {
		if !used["sort:"+s.Name] {
			used["sort:"+s.Name] = true
			for _, f := range s.DT.Fields {
				ts.noteSort(f.Sort, used, pending)
			}
		}
	}
	if s.Elem != nil {
		ts.noteSort(s.Idx, used, pending)
		ts.noteSort(s.Elem, used, pending)
	}
}

type QueryOpts struct {
	NoQuantAxioms bool
	CVC5          bool
	Z3Opts        string
	Comments      []string
	GetValues     []*Term
}

// datatype declaration order matters (a datatype must be declared after the ones it uses);
// NewDatatype appends in creation order and creation is bottom-up.
var dtCache = map[string]*Sort{}

// datatype sorts are global objects (several term stores may be alive: math mode and bv mode); each store
// declares the ones it uses
func (ts *TermStore) NewDatatype(name string, fields []DTField) *Sort {
	s, ok := dtCache[name]
	if ok {
		same := len(s.DT.Fields) == len(fields)
		for i := 0; same && i < len(fields); i++ {
			same = s.DT.Fields[i].Sort == fields[i].Sort
		}
		if !same {
			// e.g. the bit-vector variant of a struct with integer fields
			name = name + "~bv"
			if s2, ok2 := dtCache[name]; ok2 {
				s = s2
			} else {
				s = nil
			}
		}
	}
	if s == nil {
		s = &Sort{Name: name}
		s.DT = &Datatype{Name: name, Ctor: "mk~" + name, Fields: fields}
		dtCache[name] = s
	}
	for _, d := range ts.DTs {
		if d == s {
			return s
		}
	}
	ts.DTs = append(ts.DTs, s)
	return s
}

var uSortCache = map[string]*Sort{}

func (ts *TermStore) NewUSort(name string) *Sort {
	s, ok := uSortCache[name]
	if !ok {
		s = &Sort{Name: name}
		uSortCache[name] = s
	}
	for _, u := range ts.USorts {
		if u == name {
			return s
		}
	}
	ts.USorts = append(ts.USorts, name)
	return s
}

func (ts *TermStore) AddAxiom(symbol string, ax *Term) {
	ts.Axioms[symbol] = append(ts.Axioms[symbol], ax)
}

func containsQuant(t *Term) bool {
	seen := map[int]bool{}
	var rec func(t *Term) bool
	rec = func(t *Term) bool {
		if seen[t.id] {
			return false
		}
		seen[t.id] = true
		if t.Op == "forall" || t.Op == "exists" {
			return true
		}
		for _, a := range t.Args {
			if rec(a) {
				return true
			}
		}
		return false
	}
	return rec(t)
}

// dropQuantified weakens a formula by replacing, in positive positions of its and/or skeleton, every
// sub-formula that contains a quantifier by true.
func (ts *TermStore) dropQuantified(t *Term) *Term {
	if !containsQuant(t) {
		return t
	}
	switch t.Op {
	case "and":
		var out []*Term
		for _, a := range t.Args {
			out = append(out, ts.dropQuantified(a))
		}
		return ts.And(out...)
	case "or":
		var out []*Term
		for _, a := range t.Args {
			out = append(out, ts.dropQuantified(a))
		}
		return ts.Or(out...)
	}
	return ts.True()
}

func patternOK(t *Term) bool {
	if t.Op == "bound" {
		return false // a bare variable is not a pattern
	}
	var rec func(t *Term) bool
	rec = func(t *Term) bool {
		switch t.Op {
		case "ite", "and", "or", "not", "=>", "=", "<", "<=", "forall", "exists", "true", "false":
			return false
		}
		if t.Sort == SBool && t.Op != "app" && t.Op != "select" && t.Op != "sel" && t.Op != "const" && t.Op != "bound" {
			return false
		}
		for _, a := range t.Args {
			if !rec(a) {
				return false
			}
		}
		return true
	}
	return rec(t)
}

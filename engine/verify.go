package main

import (
	"fmt"
	"go/types"
	"os"
	"sort"
	"strings"

	"golang.org/x/tools/go/ssa"
)

type FuncResult struct {
	Key                 string
	Obls                []*Obligation
	Error               string // engine could not handle the function
	Houdini             []string
	Trusted             map[string]int
	Uncontr             map[string]int
	Inlined             map[string]int
	Spawns              []string
	Warnings            []string
	Paths               int
	CallsiteHits        map[string]int
	SafetySkipped       int
	CallsiteAssumptions map[string]int
	TS                  *TermStore // the term store the obligations live in
}

// runTop executes the function once (probe or final) and returns the executor.
func (V *Verifier) runTop(fn *ssa.Function, key string, fs *FuncSpec, cands map[string][]*Candidate, mods map[string]*modSet, probe bool, lockMode bool) (X *Exec, err error) {
	E := V.E
	X = NewExec(E)
	X.Unroll = V.unroll
	if fs != nil && fs.Opts["safety"] == "off" {
		X.SafetyOff = true
	}
	if fs != nil && fs.Opts["safety"] == "bounds" {
		X.SafetyBounds = true
	}
	if fs != nil && fs.Opts["arith"] == "wrap64" {
		X.Wrap64 = true
	}
	X.TopFn, X.TopKey, X.TopSpec = fn, key, fs
	X.probe = probe
	X.LockMode = lockMode
	X.LockOnly = V.LockOnly
	if cands != nil {
		X.cands = cands
	}
	if mods != nil {
		X.modCache = mods
	}
	defer func() {
		if r := recover(); r != nil {
			switch e := r.(type) {
			case abortFn:
				err = fmt.Errorf("%s", e.msg)
			case specErr:
				err = fmt.Errorf("spec: %s", e.msg)
			default:
				panic(r)
			}
		}
	}()
	ts := E.TS
	st := &State{PC: ts.True(), Heaps: map[string]*Term{}, Cells: map[*Cell]*Term{}, Clos: map[*Term]*Closure{}}
	fr := X.newFrame(fn, nil)
	fr.Top = true
	fr.Spec = fs
	X.TopFrame = fr
	// parameters: arbitrary valid values
	for _, p := range fn.Params {
		v := X.freshVal(st, p.Type(), "p."+p.Name())
		fr.Regs[p] = v
		fr.ParamEntry[p.Name()] = v
	}
	// free variables of a closure verified on its own: pointers to arbitrary captured cells
	for _, fv := range fn.FreeVars {
		v := X.freshVal(st, fv.Type(), "fv."+fv.Name())
		st.assume(ts, ts.Not(ts.Eq(v.T, ts.IntLit(0))))
		fr.Free[fv] = v
		if pt, ok := fv.Type().Underlying().(*types.Pointer); ok && structOf(pt.Elem()) == nil && immutableCapture(fv) {
			if _, isArr := pt.Elem().Underlying().(*types.Array); !isArr {
				n, srt := E.CellHeap(pt.Elem())
				st.Stable = append(st.Stable, stableRec{Heap: n, Sort: srt, Ref: v.T})
			}
		}
	}
	// receivers are non-nil when the contract does not say otherwise: methods are verified for non-nil receivers
	if fn.Signature.Recv() != nil && len(fn.Params) > 0 {
		if _, ok := fn.Params[0].Type().Underlying().(*types.Pointer); ok {
			st.assume(ts, ts.Not(ts.Eq(fr.Regs[fn.Params[0]].T, ts.IntLit(0))))
		}
	}
	// ghosts
	if fs != nil {
		for _, g := range fs.Ghosts {
			sc := X.clauseCtx(fr, st, fr.ParamEntry, "ghost "+g.Name)
			sc.Fr = nil
			T := sc.lookupType(g.Type)
			srt := E.SortOf(T)
			X.ghostTypes[g.Name] = srt
			if X.ghostGoTypes == nil {
				X.ghostGoTypes = map[string]types.Type{}
			}
			X.ghostGoTypes[g.Name] = T
			X.heapSorts["GH|"+g.Name] = srt
		}
	}
	if lockMode {
		// locks not mentioned in `holds` are free on entry
		// (the LK heaps start as their @pre constants; entry facts are added lazily in holdsEntry)
	}
	X.setHeap(st, "GM|maxalloc", SInt, ts.IntLit(0))
	X.setHeap(st, "GM|maxmake", SInt, ts.IntLit(0))
	X.setHeap(st, "GH|~panicval", SIface, E.IfaceNil())
	X.setHeap(st, "GH|~panicked", SBool, ts.False())
	X.Entry = st.Clone()
	fr.EntryState = X.Entry
	if fs != nil {
		for _, r := range fs.Requires {
			st.assume(ts, X.evalClauseTop(st, r))
		}
		for _, h := range fs.Holds {
			sc := X.clauseCtx(fr, st, fr.ParamEntry, "holds")
			// captured variables of a closure verified on its own are visible by name; locals are not
			sc.Fr = &Frame{Fn: fr.Fn, Free: fr.Free, Cells: map[*ssa.Alloc]*Cell{}, Regs: map[ssa.Value]*Val{}}
			lk := sc.lockRef(h)
			ls := ArraySort(SInt, SInt)
			X.setHeap(st, lk.heap, ls, ts.Store(X.heap(st, lk.heap, ls), lk.idx, ts.IntLit(1)))
		}
		for _, g := range fs.Ghosts {
			sc := X.clauseCtx(fr, st, fr.ParamEntry, "ghost "+g.Name)
			sc.Fr = nil
			X.setHeap(st, "GH|"+g.Name, X.ghostTypes[g.Name], sc.evalGhost(g.Init, X.ghostTypes[g.Name]))
		}
	}
	X.Entry = st.Clone()
	fr.EntryState = X.Entry
	entryPC := st.PC
	X.runBody(fr, st)

	// postconditions on every return
	var retPCs []*Term
	for _, r := range fr.Rets {
		if r.St.Dead {
			continue
		}
		retPCs = append(retPCs, r.St.PC)
		if fs == nil {
			continue
		}
		vars := map[string]*Val{}
		rn := resultNames(nil, fn.Signature)
		for i, v := range r.Vals {
			vars[fmt.Sprintf("result%d", i)] = v
			if i < len(rn) && rn[i] != "" && rn[i] != "_" {
				vars[rn[i]] = v
			}
		}
		if len(r.Vals) == 1 {
			vars["result"] = r.Vals[0]
		}
		for _, e := range fs.Ensures {
			sc := X.clauseCtx(fr, r.St, vars, fmt.Sprintf("%s:%d", e.File, e.Line))
			sc.Fr = nil
			for k, v := range fr.ParamEntry {
				if _, ok := sc.Vars[k]; !ok {
					sc.Vars[k] = v
				}
			}
			// captured variables of closures are visible by name
			sc.Fr = &Frame{Fn: fn, Free: fr.Free, Cells: map[*ssa.Alloc]*Cell{}, Regs: map[ssa.Value]*Val{}}
			t := sc.EvalBool(e.Expr)
			X.oblige(r.St, "post", e.Label, "postcondition: "+e.Src, r.Pos, t)
		}
		if lockMode {
			X.balanceObligation(fr, r)
		}
		if !X.LockOnly {
			X.frameObligations(fr, fs, r)
		}
	}
	if !probe {
		// vacuity guards: precondition satisfiable, some return reachable
		X.Obls = append(X.Obls, &Obligation{Fn: key, Kind: "cover", Desc: "precondition is satisfiable", Hyp: entryPC, Goal: ts.True(), WantSat: true, Pos: X.pos(fn.Pos())})
		if len(retPCs) > 0 {
			X.Obls = append(X.Obls, &Obligation{Fn: key, Kind: "cover", Desc: "some return is reachable", Hyp: ts.Or(retPCs...), Goal: ts.True(), WantSat: true, Pos: X.pos(fn.Pos())})
		}
	}
	return X, nil
}

func (X *Exec) balanceObligation(fr *Frame, r *retRec) {
	ts := X.E.TS
	var names []string
	for n := range X.heapSorts {
		if strings.HasPrefix(n, "LK|") {
			names = append(names, n)
		}
	}
	sort.Strings(names)
	for _, n := range names {
		cur := X.heap(r.St, n, X.heapSorts[n])
		ent := X.heap(X.Entry, n, X.heapSorts[n])
		if cur == ent {
			continue
		}
		X.oblige(r.St, "lockset", "", "locks held at return equal locks held at entry ("+n+")", r.Pos, ts.Eq(cur, ent))
	}
}

type Verifier struct {
	E      *Env
	Solver *SolverPool
	Quick  bool
	Replay map[string]*ReplaySpec
	unroll int
	bvEnv  *Env
	// lock sweep: only lockset obligations are generated (everything else is assumed at the point it would be checked)
	LockOnly bool
}

// UnrolledCounterexamples re-runs a function with loops unrolled (no invariants): obligations that come back
// sat there have models of the entry state, i.e. inputs that can be replayed.
func (V *Verifier) UnrolledCounterexamples(key string, lockMode bool, k int) []*Obligation {
	V.unroll = k
	defer func() { V.unroll = 0 }()
	fn := V.E.P.Funcs[key]
	if fn == nil {
		return nil
	}
	fs := V.E.Specs.Funcs[key]
	X, err := V.runTop(fn, key, fs, map[string][]*Candidate{}, map[string]*modSet{}, false, lockMode)
	if err != nil {
		return nil
	}
	res := &FuncResult{Key: key, Obls: X.Obls}
	V.attachReplayTerms(X, key, res)
	nameObligations(res.Obls)
	var real []*Obligation
	for _, o := range res.Obls {
		if !o.WantSat {
			real = append(real, o)
		}
	}
	V.Solver.Discharge(V.E.TS, real, 8, true)
	var out []*Obligation
	for _, o := range real {
		if o.Status == "failed" || (o.Status == "unknown" && o.Candidate) {
			out = append(out, o)
		}
	}
	return out
}

// VerifyFunc: Houdini over the auto-candidates, then the final pass and discharge of all obligations.
// envFor: functions whose contract says `ints bv` are verified with a separate environment in bit-vector mode.
func (V *Verifier) envFor(key string) *Env {
	fs := V.E.Specs.Funcs[key]
	if fs == nil || fs.Ints != "bv" {
		return V.E
	}
	if V.bvEnv == nil {
		E := NewEnv(V.E.P)
		E.BV = true
		E.installStringAxioms()
		E.Specs = V.E.Specs
		V.bvEnv = E
	}
	return V.bvEnv
}

func (V *Verifier) VerifyFunc(key string, lockMode bool) *FuncResult {
	saved := V.E
	V.E = V.envFor(key)
	defer func() { V.E = saved }()
	res := V.verifyFunc(key, lockMode)
	res.TS = V.E.TS
	return res
}

func (V *Verifier) verifyFunc(key string, lockMode bool) *FuncResult {
	E := V.E
	res := &FuncResult{Key: key}
	fn := E.P.Funcs[key]
	if fn == nil {
		res.Error = "function not found in /repo: " + key
		return res
	}
	fs := E.Specs.Funcs[key]
	if fs != nil {
		for _, cs := range fs.Callsites {
			cs.Hits = 0
		}
	}
	cands := map[string][]*Candidate{}
	mods := map[string]*modSet{}
	for iter := 0; iter < 12; iter++ {
		X, err := V.runTop(fn, key, fs, cands, mods, true, lockMode)
		if err != nil {
			res.Error = err.Error()
			return res
		}
		if len(X.candChecks) == 0 {
			break
		}
		// discharge candidate checks; drop the failing candidates
		var obls []*Obligation
		for _, cc := range X.candChecks {
			obls = append(obls, &Obligation{Fn: key, Kind: "houdini", Hyp: cc.Hyp, Goal: cc.Goal})
		}
		V.Solver.Discharge(E.TS, obls, 6.0, true)
		changed := false
		for i, cc := range X.candChecks {
			if obls[i].Status != "proved" && cc.C.Alive {
				cc.C.Alive = false
				changed = true
				if os.Getenv("GOVC_DBG") != "" {
					fmt.Fprintf(os.Stderr, "houdini: drop %q (%s: %s)\n", cc.C.Desc, cc.What, obls[i].Status)
				}
			}
		}
		if !changed {
			break
		}
	}
	for _, cs := range cands {
		for _, c := range cs {
			if c.Alive {
				res.Houdini = append(res.Houdini, c.Desc)
			}
		}
	}
	sort.Strings(res.Houdini)
	X, err := V.runTop(fn, key, fs, cands, mods, false, lockMode)
	if err != nil {
		res.Error = err.Error()
		return res
	}
	res.Obls = X.Obls
	res.SafetySkipped = X.SafetySkipped
	res.CallsiteAssumptions = X.CallsiteAssumptions
	V.attachReplayTerms(X, key, res)
	res.Trusted, res.Uncontr, res.Inlined, res.Spawns = X.UsedTrusted, X.Uncontracted, X.Inlined, X.Spawns
	res.CallsiteHits = map[string]int{}
	if fs != nil {
		for _, cs := range fs.Callsites {
			res.CallsiteHits[cs.Pattern] += cs.Hits
		}
	}
	nameObligations(res.Obls)
	return res
}

// nameObligations gives every obligation its stable name: the clause label when there is one,
// otherwise "<fn>#<kind>: <expression text>" (never a line number).
func nameObligations(obls []*Obligation) {
	for _, o := range obls {
		if o.Label != "" {
			o.Name = o.Label
			if o.Kind == "inv.entry" || o.Kind == "inv.step" {
				o.Name = o.Label + "/" + strings.TrimPrefix(o.Kind, "inv.")
			}
			continue
		}
		d := o.Desc
		if i := strings.Index(d, ": "); i >= 0 && (o.Kind == "bounds" || o.Kind == "nil" || o.Kind == "div" || o.Kind == "typeassert" || o.Kind == "panic") {
			d = d[i+2:]
		}
		o.Name = o.Fn + "#" + o.Kind + ": " + d
	}
}

// ---------------------------------------------------------------------------
// lemmas over contracts

func (V *Verifier) VerifyLemma(name string) *FuncResult {
	E := V.E
	res := &FuncResult{Key: "lemma " + name}
	lm := E.Specs.Lemmas[name]
	if lm == nil {
		res.Error = "lemma not found: " + name
		return res
	}
	X := NewExec(E)
	X.TopKey = "lemma " + name
	defer func() {
		if r := recover(); r != nil {
			switch e := r.(type) {
			case abortFn:
				res.Error = e.msg
			case specErr:
				res.Error = "spec: " + e.msg
			default:
				panic(r)
			}
		}
	}()
	ts := E.TS
	st := &State{PC: ts.True(), Heaps: map[string]*Term{}, Cells: map[*Cell]*Term{}, Clos: map[*Term]*Closure{}}
	var pkg *types.Package
	for _, p := range E.P.Pkgs {
		if shortPkg(p.PkgPath) == lm.Pkg {
			pkg = p.Types
		}
	}
	vars := map[string]*Val{}
	base := &SpecCtx{X: X, St: st, Old: st, Vars: vars, OldVars: vars, Bound: map[string]*Val{}, Pkg: pkg, What: "lemma " + name}
	for _, p := range lm.Params {
		T := base.lookupType(p.Type)
		vars[p.Name] = X.freshVal(st, T, "l."+p.Name)
	}
	X.setHeap(st, "GM|maxalloc", SInt, ts.IntLit(0))
	X.Entry = st.Clone()
	base.Old = X.Entry
	fr := &Frame{Fn: nil, Regs: map[ssa.Value]*Val{}, ParamEntry: map[string]*Val{}}
	_ = fr
	for si, s := range lm.Steps {
		if si > 0 && (lm.Steps[si-1].Kind == "let" || lm.Steps[si-1].Kind == "requires") {
			X.Obls = append(X.Obls, &Obligation{Fn: X.TopKey, Kind: "cover", Desc: fmt.Sprintf("hypotheses satisfiable after step %d (%s)", si, lm.Steps[si-1].Src), Hyp: st.PC, Goal: ts.True(), WantSat: true})
		}
		base.St = st
		switch s.Kind {
		case "requires", "assume":
			st.assume(ts, base.EvalBool(s.Expr))
		case "ensures":
			t := base.EvalBool(s.Expr)
			X.oblige(st, "lemma", s.Label, "lemma "+name+": "+s.Src, 0, t)
		case "let":
			ck := s.Callee
			if !strings.Contains(ck, ".") || strings.HasPrefix(ck, "(") {
				ck = lm.Pkg + "." + ck
			}
			callee := E.P.Funcs[ck]
			fs := E.Specs.Funcs[ck]
			if callee == nil || fs == nil {
				panic(specErr{"lemma " + name + ": no contracted function " + ck})
			}
			var args []*Val
			for _, a := range s.Args {
				args = append(args, base.eval(a))
			}
			fake := &ssa.CallCommon{Value: callee}
			dummy := X.newFrame(callee, nil)
			r := X.applyContract(dummy, st, fs, callee, nil, fake, args, callee.Pos())
			if r != nil {
				if r.Tuple != nil {
					for i, n := range s.Names {
						if i < len(r.Tuple) && n != "_" {
							vars[n] = r.Tuple[i]
						}
					}
				} else if len(s.Names) > 0 {
					vars[s.Names[0]] = r
				}
			}
		}
	}
	X.Obls = append(X.Obls, &Obligation{Fn: X.TopKey, Kind: "cover", Desc: "lemma hypotheses are satisfiable", Hyp: st.PC, Goal: ts.True(), WantSat: true})
	res.Obls = X.Obls
	res.Trusted = X.UsedTrusted
	nameObligations(res.Obls)
	return res
}

// evalEntryExpr evaluates a spec expression over the entry state of the top-level function.
func (X *Exec) evalEntryExpr(src string) (t *Term) {
	defer func() {
		if r := recover(); r != nil {
			t = nil
		}
	}()
	e, err := ParseSExpr(src)
	if err != nil {
		return nil
	}
	st := X.Entry.Clone()
	sc := X.clauseCtx(X.TopFrame, st, nil, "replay value "+src)
	sc.Fr = &Frame{Fn: X.TopFrame.Fn, Free: X.TopFrame.Free, Cells: map[*ssa.Alloc]*Cell{}, Regs: map[ssa.Value]*Val{}}
	sc.Old = X.Entry
	for k, v := range X.TopFrame.ParamEntry {
		sc.Vars[k] = v
	}
	return sc.eval(e).T
}

func (V *Verifier) attachReplayTerms(X *Exec, key string, res *FuncResult) {
	if rs := V.Replay[key]; rs != nil && X.TopFrame != nil {
		// terms whose model values describe the failing entry state
		var names []string
		for n := range rs.Values {
			names = append(names, n)
		}
		sort.Strings(names)
		var terms []*Term
		var okNames []string
		for _, n := range names {
			t := X.evalEntryExpr(rs.Values[n])
			if t != nil {
				terms = append(terms, t)
				okNames = append(okNames, n)
			}
		}
		var prefer []*Term
		for _, p := range rs.Prefer {
			if t := X.evalEntryExpr(p); t != nil && t.Sort == SBool {
				prefer = append(prefer, t)
			}
		}
		for _, o := range res.Obls {
			if !o.WantSat {
				o.Vals = append(append([]*Term{}, terms...), o.AuxVals...)
				o.ValNames = append(append([]string{}, okNames...), o.AuxNames...)
				o.Prefer = prefer
			}
		}
	}
}

// frameObligations: a contract with an explicit `modifies` list (or `pure`) promises its callers that nothing else
// changes. That promise is checked here, at every return: every heap component equals its entry value except at the
// locations the list names (objects that did not exist at entry are free). A contract WITHOUT a modifies list makes no
// such promise: its callers havoc everything (see applyContract).
type frameAllow struct {
	whole bool
	idxs  []*Term
}

// frameActive: is the frame of the function under verification checked?
func (X *Exec) frameActive() bool {
	fs := X.TopSpec
	if fs == nil || fs.ModAll || (len(fs.Modifies) == 0 && !fs.Pure) || X.LockOnly {
		return false
	}
	for _, cs := range fs.Callsites {
		if cs.Skip || cs.Havoc {
			return false
		}
	}
	return true
}

// frameInfo: per heap component, the locations (as terms over the entry state) the modifies list lets change.
func (X *Exec) frameInfo() map[string]*frameAllow {
	if X.frameAllowed != nil {
		return X.frameAllowed
	}
	fr, fs := X.TopFrame, X.TopSpec
	out := map[string]*frameAllow{}
	X.frameAllowed = out
	S := X.Entry.Clone()
	sc := X.clauseCtx(fr, X.Entry, fr.ParamEntry, "modifies of "+X.TopKey)
	sc.Fr = &Frame{Fn: fr.Fn, Free: fr.Free, Cells: map[*ssa.Alloc]*Cell{}, Regs: map[ssa.Value]*Val{}}
	sc.Old = X.Entry
	for _, loc := range fs.Modifies {
		before := map[string]*Term{}
		for n, t := range S.Heaps {
			before[n] = t
		}
		X.havocLoc(sc, S, loc)
		for n, t := range S.Heaps {
			b, had := before[n]
			if had && b == t {
				continue
			}
			srt := X.heapSorts[n]
			if srt == nil {
				continue
			}
			base := b
			if !had {
				base = X.heap(X.Entry, n, srt)
			}
			fa := out[n]
			if fa == nil {
				fa = &frameAllow{}
				out[n] = fa
			}
			if t.Op == "store" && t.Args[0] == base {
				fa.idxs = append(fa.idxs, t.Args[1])
			} else {
				fa.whole = true
			}
			S.Heaps[n] = base // keep the simulation on entry terms
		}
	}
	return out
}

func frameHeapName(n string) bool {
	return !(n == AllocHeap || strings.HasPrefix(n, "LK|") || strings.HasPrefix(n, "GH|") || strings.HasPrefix(n, "IT|") || n == "GM|maxalloc" || n == "GM|maxmake" || n == "GM|chancap")
}

// frameGoal: component n in state st equals its entry value outside the allowed locations (objects that did not exist
// at entry are free). nil = nothing to show.
func (X *Exec) frameGoal(st *State, n string) *Term {
	ts := X.E.TS
	srt := X.heapSorts[n]
	if srt == nil || srt.Elem == nil || !frameHeapName(n) {
		return nil
	}
	fa := X.frameInfo()[n]
	if fa != nil && fa.whole {
		return nil
	}
	f := X.heap(st, n, srt)
	e := X.heap(X.Entry, n, srt)
	if f == e {
		return nil
	}
	if srt.Idx == SInt && !strings.HasPrefix(n, "GM|") && !strings.HasPrefix(n, "GV|") {
		allocPre := X.heap(X.Entry, AllocHeap, ArraySort(SInt, SBool))
		i := ts.BoundVar("fr", SInt)
		hyp := []*Term{ts.Select(allocPre, i)}
		if fa != nil {
			for _, ix := range fa.idxs {
				hyp = append(hyp, ts.Not(ts.Eq(i, ix)))
			}
		}
		return ts.Forall([]*Term{i}, ts.Implies(ts.And(hyp...), ts.Eq(ts.Select(f, i), ts.Select(e, i))), []*Term{ts.Select(f, i)})
	}
	if fa != nil && len(fa.idxs) > 0 && srt.Idx != nil {
		i := ts.BoundVar("fr", srt.Idx)
		var hyp []*Term
		for _, ix := range fa.idxs {
			hyp = append(hyp, ts.Not(ts.Eq(i, ix)))
		}
		return ts.Forall([]*Term{i}, ts.Implies(ts.And(hyp...), ts.Eq(ts.Select(f, i), ts.Select(e, i))), []*Term{ts.Select(f, i)})
	}
	return ts.Eq(f, e)
}

func (X *Exec) frameObligations(fr *Frame, fs *FuncSpec, r *retRec) {
	if fs == nil || fs.ModAll || (len(fs.Modifies) == 0 && !fs.Pure) {
		return
	}
	if !X.frameActive() {
		// effects of skipped calls are not executed: the frame of this contract cannot be checked here
		X.UsedTrusted["frame (modifies list) of "+X.TopKey+" assumed: it has call sites marked skip/havoc"]++
		return
	}
	fin := r.St
	var names []string
	seen := map[string]bool{}
	for n := range fin.Heaps {
		names = append(names, n)
		seen[n] = true
	}
	if fin.Epoch != X.Entry.Epoch {
		for n := range X.heapSorts {
			if !seen[n] {
				names = append(names, n)
			}
		}
	}
	sort.Strings(names)
	for _, n := range names {
		if g := X.frameGoal(fin, n); g != nil {
			X.oblige(fin, "frame", "", "nothing outside the modifies list changes: "+n, r.Pos, g)
		}
	}
}

package main

import (
	"encoding/json"
	"fmt"
	"os"
	"os/exec"
	"path/filepath"
	"sort"
	"strconv"
	"strings"
	"time"
)

type CheckConfig struct {
	Property      string                 `json:"property"`
	Functions     []string               `json:"functions"`
	LockFunctions []string               `json:"lock_functions"`
	Lemmas        []string               `json:"lemmas"`
	Required      []string               `json:"required_names"` // obligation names that must be generated (vacuity guard)
	Assumptions   []string               `json:"assumptions"`
	Explanation   string                 `json:"explanation"`
	Bounded       []BoundedCheck         `json:"bounded"`
	Replay        map[string]*ReplaySpec `json:"replay"`     // function key -> replay harness
	SkipNames     []string               `json:"skip_names"` // labelled obligations of OTHER properties on shared functions: decided by that property's check, not here
	Level         string                 `json:"level"`      // "other": the claim rests partly on bounded stand-ins or schedule assumptions (never raises the level)
	LockSweep     []string               `json:"lock_sweep"` // lock mode over every function with one of these key prefixes: lockset obligations only
	LockSweepSkip []string               `json:"lock_sweep_skip"`
	Sweep         []string               `json:"sweep"` // thorough: zero-annotation no-panic sweep over functions with this key prefix
	LockOrder     bool                   `json:"lock_order"` // class-level lock-order graph over the whole module must be acyclic (see lockorder.go)
}

type BoundedCheck struct {
	Name  string `json:"name"`
	Cmd   string `json:"cmd"`
	Bound string `json:"bound"`
}

type Finding struct {
	Kind     string // finding | fixed
	Property string
	Name     string // obligation name (finding) or commit (fixed)
	Text     string
}

func loadFindings(path string) []Finding {
	data, err := os.ReadFile(path)
	if err != nil {
		return nil
	}
	var out []Finding
	for _, l := range strings.Split(string(data), "\n") {
		l = strings.TrimSpace(l)
		if l == "" || strings.HasPrefix(l, "#") {
			continue
		}
		// finding: property=C02 obligation=<name> :: <text>
		// fixed: property=C10 <commit> <text>
		switch {
		case strings.HasPrefix(l, "finding:"):
			rest := strings.TrimSpace(strings.TrimPrefix(l, "finding:"))
			f := Finding{Kind: "finding"}
			parts := strings.SplitN(rest, " :: ", 2)
			if len(parts) == 2 {
				f.Text = parts[1]
			}
			head := parts[0]
			if i := strings.Index(head, "obligation="); i >= 0 {
				f.Name = strings.TrimSpace(head[i+len("obligation="):])
				head = head[:i]
			}
			for _, w := range strings.Fields(head) {
				if strings.HasPrefix(w, "property=") {
					f.Property = strings.TrimPrefix(w, "property=")
				}
			}
			out = append(out, f)
		case strings.HasPrefix(l, "fixed:"):
			rest := strings.Fields(strings.TrimSpace(strings.TrimPrefix(l, "fixed:")))
			f := Finding{Kind: "fixed"}
			for _, w := range rest {
				if strings.HasPrefix(w, "property=") {
					f.Property = strings.TrimPrefix(w, "property=")
				}
			}
			f.Text = strings.Join(rest, " ")
			out = append(out, f)
		}
	}
	return out
}

type evObl struct {
	Name   string  `json:"name"`
	Kind   string  `json:"kind"`
	Fn     string  `json:"function"`
	Pos    string  `json:"pos,omitempty"`
	Desc   string  `json:"what"`
	Status string  `json:"status"`
	Solver string  `json:"backend"`
	Secs   float64 `json:"secs"`
}

func verifRoot() string {
	if d := os.Getenv("GOVC_VERIF"); d != "" {
		return d
	}
	return "/verif"
}

func cmdCheck(args []string) {
	t0 := time.Now()
	if len(args) < 1 {
		fmt.Fprintln(os.Stderr, "usage: govc check <property> [quick|thorough]")
		os.Exit(2)
	}
	id := args[0]
	tier := os.Getenv("VERIF_TIER")
	if len(args) > 1 {
		tier = args[1]
	}
	if tier != "thorough" {
		tier = "quick"
	}
	seed := 0
	if s := os.Getenv("VERIF_SEED"); s != "" {
		seed, _ = strconv.Atoi(s)
	}
	root := verifRoot()
	shard, nshards := 0, 1
	if sh := os.Getenv("GOVC_SHARD"); sh != "" {
		fmt.Sscanf(sh, "%d/%d", &shard, &nshards)
		if nshards < 1 || shard < 0 || shard >= nshards {
			shard, nshards = 0, 1
		}
	}
	var cfg CheckConfig
	data, err := os.ReadFile(filepath.Join(root, "checks", id+".json"))
	if err != nil {
		fmt.Fprintln(os.Stderr, err)
		os.Exit(2)
	}
	if err := json.Unmarshal(data, &cfg); err != nil {
		fmt.Fprintln(os.Stderr, "bad check config:", err)
		os.Exit(2)
	}
	E, V := setup() // exits 2 when /repo does not load: nothing is claimed then
	V.Replay = cfg.Replay
	timeout := 20.0
	if tier == "thorough" {
		timeout = 60.0
		V.Solver.TwoSolver = true
	}
	findings := loadFindings(filepath.Join(root, "known_findings.txt"))

	var all []*Obligation
	obTS := map[*Obligation]*TermStore{}
	var results []*FuncResult
	engineErrors := map[string]string{}
	run := func(key string, lock bool, lemma bool) {
		var r *FuncResult
		if lemma {
			r = V.VerifyLemma(key)
		} else {
			r = V.VerifyFunc(key, lock)
		}
		results = append(results, r)
		if r.Error != "" {
			engineErrors[r.Key] = r.Error
			return
		}
		tsr := E.TS
		if r.TS != nil {
			tsr = r.TS
		}
		if len(cfg.SkipNames) > 0 {
			var keep []*Obligation
			for _, o := range r.Obls {
				skip := false
				for _, n := range cfg.SkipNames {
					if o.Name == n {
						skip = true
					}
				}
				if !skip {
					keep = append(keep, o)
				}
			}
			r.Obls = keep
		}
		tmo := timeout
		if r.TS != nil && r.TS != E.TS && tmo < 60 {
			tmo = 60 // bit-vector / floating-point goals: seconds, not milliseconds; a generous limit keeps them stable under load
		}
		V.Solver.Discharge(tsr, r.Obls, tmo, false)
		for _, o := range r.Obls {
			obTS[o] = tsr
		}
		all = append(all, r.Obls...)
	}
	origLockFns := cfg.LockFunctions
	if shard != 0 {
		cfg.Functions, cfg.LockFunctions, cfg.Lemmas, cfg.Bounded, cfg.Required = nil, nil, nil, nil, nil
	}
	for _, k := range cfg.Functions {
		run(k, false, false)
	}
	for _, k := range cfg.LockFunctions {
		run(k, true, false)
	}
	// lock-discipline sweep: every function of the listed packages in lock mode; only the lockset obligations count
	// (guarded field accessed with its mutex, no self-deadlock, unlock of a held lock, locks at return = locks at entry)
	lockSweepFns, lockSweepErr := 0, map[string]string{}
	if len(cfg.LockSweep) > 0 {
		done := map[string]bool{}
		for _, k := range origLockFns {
			done[k] = true
		}
		var keys []string
		for k := range E.P.Funcs {
			if done[k] {
				continue
			}
			skip := false
			for _, sk := range cfg.LockSweepSkip {
				if k == sk || strings.HasPrefix(k, sk) {
					skip = true
				}
			}
			if skip {
				continue
			}
			for _, pre := range cfg.LockSweep {
				if strings.HasPrefix(k, pre) {
					keys = append(keys, k)
					break
				}
			}
		}
		sort.Strings(keys)
		for ki, k := range keys {
			if ki%nshards != shard {
				continue
			}
			V.LockOnly = true
			tf := time.Now()
			r := V.VerifyFunc(k, true)
			V.LockOnly = false
			if d := time.Since(tf).Seconds(); d > 2 && os.Getenv("GOVC_TIMES") != "" {
				fmt.Fprintf(os.Stderr, "locksweep %s: %.1fs (%d obligations)\n", k, d, len(r.Obls))
			}
			if r.Error != "" {
				lockSweepErr[k] = r.Error
				continue
			}
			lockSweepFns++
			var keep []*Obligation
			for _, o := range r.Obls {
				if o.Kind == "lockset" {
					keep = append(keep, o)
				}
			}
			r.Obls = keep
			results = append(results, r)
			tsr := E.TS
			if r.TS != nil {
				tsr = r.TS
			}
			V.Solver.Discharge(tsr, r.Obls, timeout, false)
			for _, o := range r.Obls {
				obTS[o] = tsr
			}
			all = append(all, r.Obls...)
		}
	}
	var lockOrderCov map[string]any
	if cfg.LockOrder && shard == 0 {
		t0 := time.Now()
		lo := lockOrder(E)
		secs := time.Since(t0).Seconds()
		bad := map[string]bool{}
		for _, s := range lo.BadSites {
			bad[s.Fn+"|"+s.Pos+"|"+s.Held+"|"+s.Acq] = true
		}
		n := len(lo.Sites)
		seenName := map[string]bool{}
		for _, s := range lo.Sites {
			name := fmt.Sprintf("%s#lockorder: %s is taken before %s", s.Fn, s.Held, s.Acq)
			if seenName[name] && !bad[s.Fn+"|"+s.Pos+"|"+s.Held+"|"+s.Acq] {
				continue
			}
			seenName[name] = true
			o := &Obligation{Fn: s.Fn, Kind: "lockorder", Name: name, Pos: s.Pos, Hyp: E.TS.True(), Goal: E.TS.True(), Status: "proved", Solver: "govc-lockorder (order graph acyclic)", Secs: secs / float64(n+1)}
			o.Desc = fmt.Sprintf("holding %s while acquiring %s (%s) puts no cycle into the lock-order graph of the module", s.Held, s.Acq, s.Via)
			if bad[s.Fn+"|"+s.Pos+"|"+s.Held+"|"+s.Acq] {
				o.Status = "failed"
				o.Goal = E.TS.False()
				var cyc []string
				for _, c := range lo.Cycles {
					for _, m := range c {
						if m == s.Held {
							cyc = c
						}
					}
				}
				var others []string
				for _, t := range lo.BadSites {
					others = append(others, fmt.Sprintf("%s (%s): holds %s, acquires %s via %s", t.Fn, t.Pos, t.Held, t.Acq, t.Via))
				}
				o.Model = "lock-order cycle among " + strings.Join(cyc, ", ") + "\nedges on the cycle:\n  " + strings.Join(others, "\n  ")
			}
			all = append(all, o)
			obTS[o] = E.TS
		}
		lockOrderCov = map[string]any{"functions": lo.Functions, "lock_classes": lo.Classes, "order_edges": lo.Edges, "order_sites": len(lo.Sites), "cycles": lo.Cycles,
			"same_class_nesting_sites_left_to_lockset_obligations": len(lo.SameClass), "unresolved_dynamic_calls_by_type": lo.Unknown}
	}
	for _, k := range cfg.Lemmas {
		run(k, false, true)
	}
	// thorough: zero-annotation safety sweep
	sweepN, sweepBad := 0, 0
	var sweepNotes []string
	if tier == "thorough" {
		inCfg := map[string]bool{}
		for _, k := range cfg.Functions {
			inCfg[k] = true
		}
		var keys []string
		for k := range E.P.Funcs {
			for _, pre := range cfg.Sweep {
				if strings.HasPrefix(k, pre) && !inCfg[k] {
					keys = append(keys, k)
				}
			}
		}
		sort.Strings(keys)
		for _, k := range keys {
			r := V.VerifyFunc(k, false)
			if r.Error != "" {
				sweepNotes = append(sweepNotes, k+": not handled: "+r.Error)
				continue
			}
			V.Solver.Discharge(E.TS, r.Obls, 10, true)
			for _, o := range r.Obls {
				sweepN++
				if o.Status != "proved" {
					sweepBad++
					sweepNotes = append(sweepNotes, fmt.Sprintf("%s: %s [%s]", k, o.Name, o.Status))
				}
			}
		}
	}

	// names
	produced := map[string]bool{}
	for _, o := range all {
		produced[o.Name] = true
		produced[o.Fn+"#safe"] = true
	}
	isKnown := func(name string) *Finding {
		for i := range findings {
			f := &findings[i]
			if f.Kind == "finding" && f.Property == id && f.Name == name {
				return f
			}
		}
		return nil
	}
	violations := 0
	var knownHit []string
	var vioLines []string
	os.MkdirAll(filepath.Join(root, "replays", id), 0o755)
	report := func(name, kind, detail string, o *Obligation) {
		if f := isKnown(name); f != nil {
			knownHit = append(knownHit, name)
			fmt.Printf("KNOWN-FINDING: property=%s %s :: %s\n", id, name, f.Text)
			return
		}
		violations++
		rp := filepath.Join(root, "replays", id, sanitizeFile(name)+".json")
		rec := map[string]any{"property": id, "obligation": name, "kind": kind, "detail": detail, "tier": tier}
		suffix := " no-failing-input-found"
		if o != nil {
			rec["function"] = o.Fn
			rec["pos"] = o.Pos
			rec["what"] = o.Desc
			rec["solver"] = o.Solver
			rec["status"] = o.Status
			rec["solver_output"] = truncate(o.Model, 20000)
			tso := E.TS
			if t, ok := obTS[o]; ok {
				tso = t
			}
			rec["hypotheses"] = truncate(tso.Show(o.Hyp), 20000)
			rec["goal"] = truncate(tso.Show(o.Goal), 8000)
			ok, out := tryReplay(root, &cfg, id, o, rec)
			if !ok && cfg.Replay != nil && cfg.Replay[o.Fn] != nil && o.Fn != "" {
				// the failing condition may sit behind a loop cut: look for an entry-state model with loops unrolled
				for _, u := range unrolledFor(V, o.Fn) {
					if u.Name != o.Name && !(strings.HasPrefix(o.Kind, "inv.")) {
						continue
					}
					rec["unrolled_obligation"] = u.Name
					if ok2, out2 := tryReplay(root, &cfg, id, u, rec); ok2 {
						ok, out = true, out2
						rec["model_note"] = "entry-state model found with loops unrolled (no invariants), obligation " + u.Name
						break
					} else if out2 != "" {
						out = out2
					}
				}
			}
			if ok {
				suffix = ""
				rec["replayed"] = true
				rec["replay_output"] = truncate(out, 8000)
			} else if out != "" {
				rec["replay_output"] = truncate(out, 8000)
			}
		}
		b, _ := json.MarshalIndent(rec, "", " ")
		os.WriteFile(rp, b, 0o644)
		vioLines = append(vioLines, fmt.Sprintf("VIOLATION property=%s replay=%s obligation=%q%s", id, rp, name, suffix))
	}
	for k, e := range engineErrors {
		report(k+"#engine", "engine", "the function or its contract could not be processed: "+e, nil)
	}
	for _, n := range cfg.Required {
		if !produced[n] {
			report(n, "missing", "an obligation that this check must generate was not generated (function renamed away, contract not bound, or zero obligations)", nil)
		}
	}
	discharged := 0
	var evObls []evObl
	backends := map[string]int{}
	solverSecs := 0.0
	for _, o := range all {
		evObls = append(evObls, evObl{o.Name, o.Kind, o.Fn, o.Pos, o.Desc, o.Status, o.Solver, round3(o.Secs)})
		solverSecs += o.Secs
		if o.Status == "proved" {
			discharged++
			backends[strings.Split(o.Solver, " ")[0]]++
			continue
		}
		detail := "obligation not discharged: " + o.Status
		report(o.Name, o.Kind, detail, o)
	}
	// bounded stand-ins (never counted as proved)
	var bounded []map[string]any
	for _, b := range cfg.Bounded {
		c := exec.Command("/bin/sh", "-c", b.Cmd)
		c.Dir = root
		c.Env = append(os.Environ(), "VERIF_TIER="+tier, fmt.Sprintf("VERIF_SEED=%d", seed))
		out, err := c.CombinedOutput()
		verdict := "pass"
		if err != nil {
			verdict = "fail"
			rp := filepath.Join(root, "replays", id, sanitizeFile("bounded."+b.Name)+".json")
			name := "bounded." + b.Name
			if f := isKnown(name); f != nil {
				knownHit = append(knownHit, name)
				fmt.Printf("KNOWN-FINDING: property=%s %s :: %s\n", id, name, f.Text)
			} else {
				violations++
				rb, _ := json.MarshalIndent(map[string]any{"property": id, "obligation": name, "kind": "bounded", "bound": b.Bound, "output": truncate(string(out), 20000)}, "", " ")
				os.WriteFile(rp, rb, 0o644)
				vioLines = append(vioLines, fmt.Sprintf("VIOLATION property=%s replay=%s obligation=%q", id, rp, name))
			}
		}
		cases := 0
		for _, l := range strings.Split(string(out), "\n") {
			if strings.HasPrefix(l, "BOUNDED-CASES ") {
				cases, _ = strconv.Atoi(strings.TrimSpace(strings.TrimPrefix(l, "BOUNDED-CASES ")))
			}
			if strings.HasPrefix(l, "KNOWN-FINDING:") {
				fmt.Println(l)
			}
		}
		bounded = append(bounded, map[string]any{"name": b.Name, "bound": b.Bound, "cases": cases, "verdict": verdict, "label": "bounded (not counted as proved)"})
	}

	// evidence
	level := "proof"
	if discharged != len(all) || len(engineErrors) > 0 || len(all) == 0 || cfg.Level == "other" || len(cfg.Bounded) > 0 {
		level = "other"
	}
	trusted := map[string]int{}
	uncontr := map[string]int{}
	inlined := map[string]int{}
	var spawns, houdini, csAssume []string
	var fnList []map[string]any
	for _, r := range results {
		for k, v := range r.Trusted {
			trusted[k] += v
		}
		for k, v := range r.Uncontr {
			uncontr[k] += v
		}
		for k, v := range r.Inlined {
			inlined[k] += v
		}
		spawns = append(spawns, r.Spawns...)
		for k := range r.CallsiteAssumptions {
			csAssume = append(csAssume, k)
		}
		n, p := 0, 0
		for _, o := range r.Obls {
			n++
			if o.Status == "proved" {
				p++
			}
		}
		fnList = append(fnList, map[string]any{"function": r.Key, "obligations": n, "discharged": p, "houdini_invariants": r.Houdini, "error": r.Error, "safety_obligations_not_generated": r.SafetySkipped})
		houdini = append(houdini, r.Houdini...)
	}
	var tb []string
	tb = append(tb, "go/packages+go/types+go/ssa (x/tools v0.29.0) lowering of /repo's working tree, build tag verif")
	tb = append(tb, "govc symbolic semantics of go/ssa (DESIGN.md 2.1): mathematical integers (overflow of + - * on 64-bit types not checked), heap model by field/element arrays, goroutine spawns not followed, channel operations and select abstracted")
	tb = append(tb, "SMT solvers z3 4.8.12 / z3 5.1.0 / cvc5 1.0.3")
	for _, k := range sortedKeys(trusted) {
		tb = append(tb, "assumed contract: "+k)
	}
	for _, k := range sortedKeys(uncontr) {
		tb = append(tb, "uncontracted call (havoc of all heap state, result unconstrained): "+k)
	}
	for _, k := range uniq(csAssume) {
		tb = append(tb, "assumed at a call site: "+k)
	}
	tb = append(tb, "immutable package-level variables read as constants; errors made by errors.New/fmt.Errorf in var declarations are non-nil")
	samples := []any{}
	for i, o := range all {
		if i%((len(all)/4)+1) == 0 && len(samples) < 5 {
			samples = append(samples, map[string]any{"name": o.Name, "kind": o.Kind, "what": o.Desc, "status": o.Status, "backend": o.Solver, "smt_query_head": truncate(o.Query, 1500)})
		}
	}
	if len(samples) == 0 {
		samples = append(samples, "no obligations generated")
	}
	expl := cfg.Explanation
	if level == "other" {
		expl = fmt.Sprintf("%d of %d obligations discharged; the rest are listed under known_findings_hit / violations. ", discharged, len(all)) + expl
	}
	cov := map[string]any{
		"obligations":                   len(all),
		"discharged":                    discharged,
		"checker_cmd":                   fmt.Sprintf("/verif/check.sh %s %s", id, tier),
		"trusted_base":                  tb,
		"explanation":                   expl,
		"functions_under_contract":      fnList,
		"obligation_list":               evObls,
		"backends":                      backends,
		"solver_secs":                   round3(solverSecs),
		"samples":                       samples,
		"known_findings_hit":            knownHit,
		"bounded_checks":                bounded,
		"inlined_callees":               inlined,
		"goroutine_spawns_not_followed": uniq(spawns),
		"engine_warnings":               E.Warnings,
		"contract_files":                E.Specs.Files,
		"two_solver_agreement":          tier == "thorough",
		"evaluations":                   len(all),
		"distinct_nontrivial":           countNontrivial(all),
		"rule":                          "one SMT query per generated obligation; non-trivial = not settled by the term simplifier alone",
	}
	if len(cfg.LockSweep) > 0 {
		var errs []string
		for k, e := range lockSweepErr {
			errs = append(errs, k+": "+e)
		}
		sort.Strings(errs)
		if lockOrderCov != nil {
			cov["lock_order"] = lockOrderCov
		}
		cov["lock_sweep"] = map[string]any{"prefixes": cfg.LockSweep, "functions_checked": lockSweepFns, "functions_not_handled": errs}
	}
	if tier == "thorough" {
		cov["sweep"] = map[string]any{"prefixes": cfg.Sweep, "obligations": sweepN, "not_discharged": sweepBad, "notes": sweepNotes, "label": "informational zero-annotation safety sweep; not part of the claim"}
	}
	ev := map[string]any{
		"property_id": id,
		"tier":        tier,
		"seed":        seed,
		"level":       level,
		"coverage":    cov,
		"assumptions": append(cfg.Assumptions, "see coverage.trusted_base"),
		"wall_s":      round3(time.Since(t0).Seconds()),
		"violations":  violations,
	}
	os.MkdirAll(filepath.Join(root, "evidence"), 0o755)
	b, _ := json.MarshalIndent(ev, "", " ")
	evName := id + ".json"
	if nshards > 1 {
		evName = fmt.Sprintf("%s.shard%d.json", id, shard)
	}
	os.WriteFile(filepath.Join(root, "evidence", evName), b, 0o644)

	fmt.Printf("%s %s: %d obligations, %d discharged, %d known findings, %d violations, %.1fs\n", id, tier, len(all), discharged, len(knownHit), violations, time.Since(t0).Seconds())
	for _, l := range vioLines {
		fmt.Println(l)
	}
	if violations > 0 {
		os.Exit(1)
	}
}

func countNontrivial(all []*Obligation) int {
	seen := map[string]bool{}
	n := 0
	for _, o := range all {
		if o.Solver == "govc-simplifier" {
			continue
		}
		k := o.Name + "|" + o.Pos
		if !seen[k] {
			seen[k] = true
			n++
		}
	}
	return n
}

func sortedKeys(m map[string]int) []string {
	var ks []string
	for k := range m {
		ks = append(ks, k)
	}
	sort.Strings(ks)
	return ks
}

func uniq(s []string) []string {
	m := map[string]bool{}
	var out []string
	for _, x := range s {
		if !m[x] {
			m[x] = true
			out = append(out, x)
		}
	}
	sort.Strings(out)
	return out
}

func round3(f float64) float64 { return float64(int(f*1000+0.5)) / 1000 }

func truncate(s string, n int) string {
	if len(s) > n {
		return s[:n] + "…"
	}
	return s
}

func sanitizeFile(s string) string {
	var sb strings.Builder
	for _, r := range s {
		if r >= 'a' && r <= 'z' || r >= 'A' && r <= 'Z' || r >= '0' && r <= '9' || r == '.' || r == '-' || r == '_' {
			sb.WriteRune(r)
		} else {
			sb.WriteRune('_')
		}
	}
	out := sb.String()
	if len(out) > 120 {
		out = out[:120]
	}
	return out
}

// tryReplay: turn the solver's model into an input for the real code where a replay harness exists.
func tryReplay(root string, cfg *CheckConfig, id string, o *Obligation, rec map[string]any) (bool, string) {
	var rs *ReplaySpec
	if cfg.Replay != nil {
		rs = cfg.Replay[o.Fn]
	}
	if rs == nil || !(o.Status == "failed" || (o.Status == "unknown" && o.Candidate)) {
		return false, ""
	}
	if o.Candidate {
		rec["model_note"] = "candidate counterexample from the query without its quantified hypotheses; believed only because it replays"
	}
	return runReplay(root, rs, id, o, rec)
}

var unrolledCache = map[string][]*Obligation{}

func unrolledFor(V *Verifier, key string) []*Obligation {
	if r, ok := unrolledCache[key]; ok {
		return r
	}
	r := V.UnrolledCounterexamples(key, false, 4)
	unrolledCache[key] = r
	return r
}

package main

import (
	"fmt"
	"os"
	"sort"
	"strings"
)

func main() {
	if len(os.Args) < 2 {
		fmt.Fprintln(os.Stderr, "usage: govc dump|check ...")
		os.Exit(2)
	}
	switch os.Args[1] {
	case "dump":
		cmdDump(os.Args[2:])
	case "list":
		cmdList(os.Args[2:])
	case "dumpinit":
		P, _ := loadProgram(repoDir(), defaultPatterns)
		for path, sp := range P.SPkgs {
			if strings.HasSuffix(path, os.Args[2]) {
				sp.Func("init").WriteTo(os.Stdout)
			}
		}
	case "dbgglobals":
		E, _ := setup()
		E.debugGlobals()
	case "verify":
		cmdVerify(os.Args[2:])
	case "check":
		cmdCheck(os.Args[2:])
	case "lockorder":
		cmdLockOrder(os.Args[2:])
	default:
		fmt.Fprintln(os.Stderr, "unknown command", os.Args[1])
		os.Exit(2)
	}
}

func repoDir() string {
	if d := os.Getenv("GOVC_REPO"); d != "" {
		return d
	}
	return "/repo"
}

var defaultPatterns = []string{".", "./adapter/...", "./engine.io", "./engine.io/parser/...", "./engine.io/transport/...", "./parser/...", "./internal/..."}

func cmdList(args []string) {
	P, err := loadProgram(repoDir(), defaultPatterns)
	if err != nil {
		fmt.Fprintln(os.Stderr, err)
		os.Exit(2)
	}
	var keys []string
	for k := range P.Funcs {
		keys = append(keys, k)
	}
	sort.Strings(keys)
	for _, k := range keys {
		if len(args) == 0 || strings.Contains(k, args[0]) {
			fmt.Println(k)
		}
	}
}

func cmdDump(args []string) {
	P, err := loadProgram(repoDir(), defaultPatterns)
	if err != nil {
		fmt.Fprintln(os.Stderr, err)
		os.Exit(2)
	}
	for _, a := range args {
		fn := P.Funcs[a]
		if fn == nil {
			fmt.Println("no such function:", a)
			continue
		}
		fn.WriteTo(os.Stdout)
	}
}

func setup() (*Env, *Verifier) {
	P, err := loadProgram(repoDir(), defaultPatterns)
	if err != nil {
		fmt.Fprintln(os.Stderr, err)
		os.Exit(2)
	}
	E := NewEnv(P)
	E.installStringAxioms()
	E.Specs = NewSpecDB()
	assumedDir := "/verif/assumed"
	if d := os.Getenv("GOVC_ASSUMED"); d != "" {
		assumedDir = d
	}
	ents, _ := os.ReadDir(assumedDir)
	for _, e := range ents {
		if strings.HasSuffix(e.Name(), ".spec") {
			if err := E.Specs.LoadSpecFile(assumedDir+"/"+e.Name(), "", true); err != nil {
				fmt.Fprintln(os.Stderr, err)
				os.Exit(2)
			}
		}
	}
	notes, err := E.Specs.LoadRepoSpecs(P, "/verif/contracts")
	if err != nil {
		fmt.Fprintln(os.Stderr, err)
		os.Exit(2)
	}
	for _, n := range notes {
		fmt.Fprintln(os.Stderr, "note:", n)
	}
	work := os.Getenv("GOVC_WORK")
	if work == "" {
		work = "/verif/work/smt"
	}
	V := &Verifier{E: E, Solver: NewSolverPool(work)}
	return E, V
}

func cmdVerify(args []string) {
	E, V := setup()
	lock := false
	verbose := false
	tmo := 10.0
	var keys []string
	for _, a := range args {
		switch a {
		case "-lock":
			lock = true
		case "-v":
			verbose = true
		case "-lockonly":
			lock = true
			V.LockOnly = true
		case "-keep":
			V.Solver.KeepFiles = true
		case "-t60":
			tmo = 60
		case "-t120":
			tmo = 120
		default:
			keys = append(keys, a)
		}
	}
	bad := 0
	for _, k := range keys {
		var r *FuncResult
		if strings.HasPrefix(k, "lemma:") {
			r = V.VerifyLemma(strings.TrimPrefix(k, "lemma:"))
		} else {
			r = V.VerifyFunc(k, lock)
		}
		if r.Error != "" {
			fmt.Printf("%s: ERROR %s\n", k, r.Error)
			bad++
			continue
		}
		tsr := E.TS
		if r.TS != nil {
			tsr = r.TS
		}
		V.Solver.Discharge(tsr, r.Obls, tmo, false)
		np := 0
		for _, o := range r.Obls {
			if o.Status == "proved" {
				np++
			}
			if verbose || o.Status != "proved" {
				fmt.Printf("  [%s] %-9s %-8s %s  (%s %.2fs) %s\n", o.Status, o.Kind, o.Pos, o.Name, o.Solver, o.Secs, "")
				if o.Status != "proved" && verbose {
					fmt.Println("     hyp:", E.TS.Show(o.Hyp))
					fmt.Println("     goal:", E.TS.Show(o.Goal))
				}
			}
		}
		fmt.Printf("%s: %d/%d obligations proved; houdini=%v uncontracted=%v inlined=%v\n", k, np, len(r.Obls), r.Houdini, r.Uncontr, r.Inlined)
		if np != len(r.Obls) {
			bad++
		}
	}
	for _, w := range E.Warnings {
		fmt.Println("warning:", w)
	}
	if bad > 0 {
		os.Exit(1)
	}
}

package main

import (
	"fmt"
	"os"
	"sort"
	"strings"
)

func main() {
	if len(os.Args) < 2 {
		fmt.Fprintln(os.Stderr, "usage: govc dump|check ...")
		os.Exit(2)
	}
	switch os.Args[1] {
	case "dump":
		cmdDump(os.Args[2:])
	case "list":
		cmdList(os.Args[2:])
	default:
		fmt.Fprintln(os.Stderr, "unknown command", os.Args[1])
		os.Exit(2)
	}
}

func repoDir() string {
	if d := os.Getenv("GOVC_REPO"); d != "" {
		return d
	}
	return "/repo"
}

var defaultPatterns = []string{".", "./adapter/...", "./engine.io", "./engine.io/parser/...", "./engine.io/transport/...", "./parser/...", "./internal/..."}

func cmdList(args []string) {
	P, err := loadProgram(repoDir(), defaultPatterns)
	if err != nil {
		fmt.Fprintln(os.Stderr, err)
		os.Exit(2)
	}
	var keys []string
	for k := range P.Funcs {
		keys = append(keys, k)
	}
	sort.Strings(keys)
	for _, k := range keys {
		if len(args) == 0 || strings.Contains(k, args[0]) {
			fmt.Println(k)
		}
	}
}

func cmdDump(args []string) {
	P, err := loadProgram(repoDir(), defaultPatterns)
	if err != nil {
		fmt.Fprintln(os.Stderr, err)
		os.Exit(2)
	}
	for _, a := range args {
		fn := P.Funcs[a]
		if fn == nil {
			fmt.Println("no such function:", a)
			continue
		}
		fn.WriteTo(os.Stdout)
	}
}

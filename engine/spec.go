package main

import (
	"fmt"
	"math/big"
	"os"
	"path/filepath"
	"regexp"
	"strconv"
	"strings"
	"unicode"
)

// ---------------------------------------------------------------------------
// Spec AST

type SExpr struct {
	Kind string // ident int str bool nil unary binary cond call index slice sel quant paren
	Op   string
	Name string
	Int  *big.Int
	Str  string
	Args []*SExpr
	Vars []SVar
	Pats [][]*SExpr
	Src  string
}

type SVar struct {
	Name string
	Type string
}

type Clause struct {
	Kind  string // requires ensures modifies invariant update panics_if assume
	Expr  *SExpr
	Locs  []*SExpr // modifies
	Label string
	Name  string // update target
	Src   string
	File  string
	Line  int
}

type LoopSpec struct {
	Invariants []*Clause
	Unroll     int
	NoHoudini  bool
	// invariants that name a local the code no longer has (with the missing name): re-tried with the function's
	// other locals in that role (see renameCandidates)
	Dropped []droppedInv
}

type droppedInv struct {
	Clause *Clause
	Name   string
}

// renameIdent: a copy of e with identifier `from` replaced by `to` (bound variables of quantifiers shadow).
func renameIdent(e *SExpr, from, to string) *SExpr {
	if e == nil {
		return nil
	}
	n := *e
	if e.Kind == "ident" && e.Name == from {
		n.Name = to
	}
	for _, v := range e.Vars {
		if v.Name == from {
			return &n // shadowed below this quantifier
		}
	}
	n.Args = nil
	for _, a := range e.Args {
		n.Args = append(n.Args, renameIdent(a, from, to))
	}
	n.Pats = nil
	for _, ps := range e.Pats {
		var q []*SExpr
		for _, x := range ps {
			q = append(q, renameIdent(x, from, to))
		}
		n.Pats = append(n.Pats, q)
	}
	return &n
}

type CallsiteSpec struct {
	Pattern  string
	After    []*Clause // "updateafter g = e": ghost update after the call, `result`/`result0..` bound to what it returned
	Assumes  []*Clause // "assume" clauses: taken for granted after the call (listed as assumptions); pre(e) = value before the call
	Requires []*Clause
	Updates  []*Clause
	ViaGo    string // "" any, "go" only go, "sync" only non-go
	Hits     int
	Snapshot bool // save the state before this call: later clauses read it with snap(e)
	MayPanic bool // the call may panic: the panic path (deferred calls, recover, Recover block) is explored too
	Skip     bool // do not execute the call itself (treated as no-op after the clauses)
	Havoc    bool // force havoc-all at this call even if a contract exists
}

type GhostDecl struct {
	Name string
	Type string
	Init *SExpr
}

type FuncSpec struct {
	Key       string // function key, interface method key ("iface:pkg.Type.Method") or extern key ("extern:path.Func")
	Requires  []*Clause
	Ensures   []*Clause
	Modifies  []*SExpr
	ModAll    bool // modifies everything (havoc)
	Pure      bool
	Loops     map[int]*LoopSpec
	Ghosts    []*GhostDecl
	Callsites []*CallsiteSpec
	Ints      string
	Holds     []*SExpr
	Callback  bool
	Inline    bool // always inline rather than use the contract
	NoInline  bool
	Trusted   bool     // contract is assumed, body not verified (only in /verif/assumed)
	Params    []string // names for extern/interface params (positional)
	Results   []string
	File      string
	Line      int
	Pkg       string // short package key the spec file belongs to
	PanicsIf  []*Clause
	Opts      map[string]string
}

type SpecFunc struct {
	Name    string
	Params  []SVar
	Result  string
	Body    *SExpr // nil = uninterpreted
	Rec     bool   // defined recursively: emitted as UF + axiom
	Pkg     string
	Trigger []*SExpr
}

type GhostMap struct {
	Name   string
	Params []SVar
	Result string
	Pkg    string
}

type TypeSpec struct {
	Name      string              // pkg.Type
	GuardedBy map[string][]string // mutex field -> guarded fields
	Monitor   map[string][]*Clause
	Valid     []*Clause
}

type Lemma struct {
	Name   string
	Params []SVar
	Steps  []*LemmaStep
	Pkg    string
	File   string
	Line   int
}

type LemmaStep struct {
	Kind   string // requires let ensures
	Expr   *SExpr
	Label  string
	Names  []string // let: result names
	Callee string
	Args   []*SExpr
	Src    string
}

type SpecDB struct {
	Funcs     map[string]*FuncSpec
	SpecFuncs map[string]*SpecFunc
	GhostMaps map[string]*GhostMap
	Types     map[string]*TypeSpec
	Lemmas    map[string]*Lemma
	Axioms    []*Clause
	Files     []string
	Trusted   []string // descriptions of assumed contracts loaded
}

func NewSpecDB() *SpecDB {
	return &SpecDB{Funcs: map[string]*FuncSpec{}, SpecFuncs: map[string]*SpecFunc{}, GhostMaps: map[string]*GhostMap{}, Types: map[string]*TypeSpec{}, Lemmas: map[string]*Lemma{}}
}

var labelRe = regexp.MustCompile(`\s+\[([A-Z][A-Za-z0-9_\-$]*\.[A-Za-z0-9_.\-$]+)\]\s*$`)

// LoadSpecFile parses one contract file. pkg is the short package key for unqualified names
// ("" for /verif/assumed files, where every name is qualified). assumed marks extern contracts as trusted.
func (db *SpecDB) LoadSpecFile(path, pkg string, assumed bool) error {
	data, err := os.ReadFile(path)
	if err != nil {
		return err
	}
	db.Files = append(db.Files, path)
	lines := strings.Split(string(data), "\n")
	var cur *FuncSpec
	var curCS *CallsiteSpec
	var curType *TypeSpec
	var curLemma *Lemma
	var pending string
	pendingLine := 0
	for ln, raw := range lines {
		line := strings.TrimSpace(raw)
		if !strings.HasPrefix(line, "//@") {
			continue
		}
		line = strings.TrimSpace(strings.TrimPrefix(line, "//@"))
		if line == "" || strings.HasPrefix(line, "//") || strings.HasPrefix(line, "#") {
			continue
		}
		if strings.HasSuffix(line, "\\") {
			if pending == "" {
				pendingLine = ln + 1
			}
			pending += strings.TrimSuffix(line, "\\") + " "
			continue
		}
		lineNo := ln + 1
		if pending != "" {
			line = pending + line
			pending = ""
			lineNo = pendingLine
		}
		// strip trailing comment " // ..."
		if i := strings.Index(line, " // "); i >= 0 {
			line = strings.TrimSpace(line[:i])
		}
		kw, rest := splitWord(line)
		fail := func(e error) error { return fmt.Errorf("%s:%d: %v", path, lineNo, e) }
		mkClause := func(kind, src string) (*Clause, error) {
			label := ""
			if m := labelRe.FindStringSubmatch(src); m != nil {
				label = m[1]
				src = src[:len(src)-len(m[0])]
			}
			e, err := ParseSExpr(src)
			if err != nil {
				return nil, fail(err)
			}
			return &Clause{Kind: kind, Expr: e, Label: label, Src: strings.TrimSpace(src), File: path, Line: lineNo}, nil
		}
		switch kw {
		case "func", "interface", "extern":
			curCS, curType, curLemma = nil, nil, nil
			name, tail := splitWord(rest)
			key := name
			switch kw {
			case "func":
				if pkg != "" && !strings.HasPrefix(name, pkg+".") {
					key = pkg + "." + name
				}
			case "interface":
				key = "iface:" + name
			case "extern":
				key = "extern:" + name
			}
			cur = &FuncSpec{Key: key, Loops: map[int]*LoopSpec{}, File: path, Line: lineNo, Pkg: pkg, Opts: map[string]string{}}
			if kw != "func" {
				cur.Trusted = true
			}
			if assumed {
				cur.Trusted = true
			}
			// optional "(a, b) (r0, r1)" parameter/result names
			tail = strings.TrimSpace(tail)
			if strings.HasPrefix(tail, "(") {
				end := strings.Index(tail, ")")
				if end < 0 {
					return fail(fmt.Errorf("bad parameter list"))
				}
				cur.Params = splitNames(tail[1:end])
				tail = strings.TrimSpace(tail[end+1:])
				if strings.HasPrefix(tail, "(") {
					end = strings.Index(tail, ")")
					cur.Results = splitNames(tail[1:end])
				}
			}
			if _, dup := db.Funcs[key]; dup {
				return fail(fmt.Errorf("duplicate contract for %s", key))
			}
			db.Funcs[key] = cur
			if cur.Trusted {
				db.Trusted = append(db.Trusted, key)
			}
		case "type":
			cur, curCS, curLemma = nil, nil, nil
			name, _ := splitWord(rest)
			if pkg != "" && !strings.Contains(name, ".") {
				name = pkg + "." + name
			}
			curType = db.Types[name]
			if curType == nil {
				curType = &TypeSpec{Name: name, GuardedBy: map[string][]string{}, Monitor: map[string][]*Clause{}}
				db.Types[name] = curType
			}
		case "guarded_by":
			if curType == nil {
				return fail(fmt.Errorf("guarded_by outside type"))
			}
			// guarded_by(mu) f1, f2
			m := regexp.MustCompile(`^\((\w+)\)\s*(.*)$`).FindStringSubmatch(rest)
			if m == nil {
				return fail(fmt.Errorf("bad guarded_by"))
			}
			curType.GuardedBy[m[1]] = append(curType.GuardedBy[m[1]], splitNames(m[2])...)
		case "monitor":
			if curType == nil {
				return fail(fmt.Errorf("monitor outside type"))
			}
			i := strings.Index(rest, ":")
			if i < 0 {
				return fail(fmt.Errorf("bad monitor"))
			}
			mu := strings.TrimSpace(rest[:i])
			c, err := mkClause("monitor", rest[i+1:])
			if err != nil {
				return err
			}
			curType.Monitor[mu] = append(curType.Monitor[mu], c)
		case "spec", "define":
			cur, curCS, curType, curLemma = nil, nil, nil, nil
			sf, err := parseSpecFunc(rest, pkg)
			if err != nil {
				return fail(err)
			}
			db.SpecFuncs[sf.Name] = sf
		case "ghostmap":
			cur, curCS, curType, curLemma = nil, nil, nil, nil
			sf, err := parseSpecFunc(rest, pkg)
			if err != nil {
				return fail(err)
			}
			db.GhostMaps[sf.Name] = &GhostMap{Name: sf.Name, Params: sf.Params, Result: sf.Result, Pkg: pkg}
		case "axiom":
			if !assumed {
				return fail(fmt.Errorf("axiom allowed only in assumed specs"))
			}
			c, err := mkClause("axiom", rest)
			if err != nil {
				return err
			}
			db.Axioms = append(db.Axioms, c)
		case "lemma":
			cur, curCS, curType = nil, nil, nil
			sf, err := parseSpecFunc(rest+" bool", pkg)
			if err != nil {
				return fail(err)
			}
			curLemma = &Lemma{Name: sf.Name, Params: sf.Params, Pkg: pkg, File: path, Line: lineNo}
			db.Lemmas[sf.Name] = curLemma
		case "let":
			if curLemma == nil {
				return fail(fmt.Errorf("let outside lemma"))
			}
			// let a, b = call Callee(args)
			m := regexp.MustCompile(`^([\w, ]+)=\s*call\s+((?:\(\*?\w+\)\.)?[\w.]+)\((.*)\)$`).FindStringSubmatch(rest)
			if m == nil {
				return fail(fmt.Errorf("bad let: %s", rest))
			}
			st := &LemmaStep{Kind: "let", Names: splitNames(m[1]), Callee: m[2], Src: rest}
			for _, a := range splitTopLevel(m[3], ',') {
				if strings.TrimSpace(a) == "" {
					continue
				}
				e, err := ParseSExpr(a)
				if err != nil {
					return fail(err)
				}
				st.Args = append(st.Args, e)
			}
			curLemma.Steps = append(curLemma.Steps, st)
		case "requires", "ensures", "panics_if", "assume":
			c, err := mkClause(kw, rest)
			if err != nil {
				return err
			}
			switch {
			case curLemma != nil:
				curLemma.Steps = append(curLemma.Steps, &LemmaStep{Kind: kw, Expr: c.Expr, Label: c.Label, Src: c.Src})
			case curCS != nil && kw == "requires":
				curCS.Requires = append(curCS.Requires, c)
			case curCS != nil && kw == "assume":
				curCS.Assumes = append(curCS.Assumes, c)
			case cur != nil && kw == "requires":
				cur.Requires = append(cur.Requires, c)
			case cur != nil && kw == "ensures":
				curCS = nil
				cur.Ensures = append(cur.Ensures, c)
			case cur != nil && kw == "panics_if":
				cur.PanicsIf = append(cur.PanicsIf, c)
			default:
				return fail(fmt.Errorf("%s outside func/lemma", kw))
			}
		case "modifies":
			if cur == nil {
				return fail(fmt.Errorf("modifies outside func"))
			}
			curCS = nil
			if strings.TrimSpace(rest) == "*" {
				cur.ModAll = true
				break
			}
			for _, a := range splitTopLevel(rest, ',') {
				e, err := ParseSExpr(a)
				if err != nil {
					return fail(err)
				}
				cur.Modifies = append(cur.Modifies, e)
			}
		case "pure":
			if cur == nil {
				return fail(fmt.Errorf("pure outside func"))
			}
			cur.Pure = true
		case "inline":
			if cur == nil {
				return fail(fmt.Errorf("inline outside func"))
			}
			cur.Inline = true
		case "opt":
			if cur == nil {
				return fail(fmt.Errorf("opt outside func"))
			}
			k, v := splitWord(rest)
			cur.Opts[k] = strings.TrimSpace(v)
		case "ints":
			if cur == nil {
				return fail(fmt.Errorf("ints outside func"))
			}
			cur.Ints = strings.TrimSpace(rest)
		case "ghost":
			if cur == nil {
				return fail(fmt.Errorf("ghost outside func"))
			}
			curCS = nil
			m := regexp.MustCompile(`^(\w+)\s+(\S+)\s*=\s*(.*)$`).FindStringSubmatch(rest)
			if m == nil {
				return fail(fmt.Errorf("bad ghost decl"))
			}
			e, err := ParseSExpr(m[3])
			if err != nil {
				return fail(err)
			}
			cur.Ghosts = append(cur.Ghosts, &GhostDecl{Name: m[1], Type: m[2], Init: e})
		case "loop", "each":
			if cur == nil {
				return fail(fmt.Errorf("loop outside func"))
			}
			curCS = nil
			ns, tail := splitWord(rest)
			n, err := strconv.Atoi(ns)
			if err != nil {
				return fail(fmt.Errorf("bad loop ordinal"))
			}
			if kw == "each" {
				n = -1 - n // iterations through Set.Each(closure): the N-th Each call of the function (source order)
			}
			ls := cur.Loops[n]
			if ls == nil {
				ls = &LoopSpec{}
				cur.Loops[n] = ls
			}
			k2, tail2 := splitWord(tail)
			switch k2 {
			case "invariant":
				c, err := mkClause("invariant", tail2)
				if err != nil {
					return err
				}
				ls.Invariants = append(ls.Invariants, c)
			case "unroll":
				ls.Unroll, _ = strconv.Atoi(strings.TrimSpace(tail2))
			case "nohoudini":
				ls.NoHoudini = true
			default:
				return fail(fmt.Errorf("bad loop clause %q", k2))
			}
		case "callsite", "onstore", "onselect", "onupdate":
			if cur == nil {
				return fail(fmt.Errorf("callsite outside func"))
			}
			pat, tail := splitWord(rest)
			if kw == "onstore" {
				pat = "store:" + pat // assignment to the field of that name
			}
			if kw == "onupdate" {
				pat = "update:" + pat // m[k] = v on the map variable / field of that name
			}
			if kw == "onselect" {
				pat = "select:" + pat // the N-th select statement of the function
			}
			curCS = &CallsiteSpec{Pattern: pat}
			for _, w := range strings.Fields(tail) {
				if strings.HasPrefix(w, "//") {
					break
				}
				switch w {
				case "maypanic":
					curCS.MayPanic = true
				case "go", "sync":
					curCS.ViaGo = w
				case "skip":
					curCS.Skip = true
				case "havoc":
					curCS.Havoc = true
				case "snapshot":
					curCS.Snapshot = true
				}
			}
			cur.Callsites = append(cur.Callsites, curCS)
		case "updateafter":
			if curCS == nil {
				return fail(fmt.Errorf("updateafter outside callsite"))
			}
			ma := regexp.MustCompile(`^(\w+)\s*=\s*(.*)$`).FindStringSubmatch(rest)
			if ma == nil {
				return fail(fmt.Errorf("bad updateafter"))
			}
			ca, err := mkClause("update", ma[2])
			if err != nil {
				return err
			}
			ca.Name = ma[1]
			curCS.After = append(curCS.After, ca)
		case "update":
			if curCS == nil {
				return fail(fmt.Errorf("update outside callsite"))
			}
			m := regexp.MustCompile(`^(\w+)\s*=\s*(.*)$`).FindStringSubmatch(rest)
			if m == nil {
				return fail(fmt.Errorf("bad update"))
			}
			c, err := mkClause("update", m[2])
			if err != nil {
				return err
			}
			c.Name = m[1]
			curCS.Updates = append(curCS.Updates, c)
		case "callback":
			if cur == nil {
				return fail(fmt.Errorf("callback outside func"))
			}
			cur.Callback = true // calls user code (handlers) synchronously: callers must not hold a lock across it
		case "holds":
			if cur == nil {
				return fail(fmt.Errorf("holds outside func"))
			}
			for _, a := range splitTopLevel(rest, ',') {
				e, err := ParseSExpr(a)
				if err != nil {
					return fail(err)
				}
				cur.Holds = append(cur.Holds, e)
			}
		default:
			return fail(fmt.Errorf("unknown keyword %q", kw))
		}
	}
	return nil
}

func splitWord(s string) (string, string) {
	s = strings.TrimSpace(s)
	// a word may contain balanced parentheses: (*T).M
	depth := 0
	for i, r := range s {
		switch {
		case r == '(' || r == '[':
			depth++
		case r == ')' || r == ']':
			depth--
		case unicode.IsSpace(r) && depth == 0:
			return s[:i], strings.TrimSpace(s[i:])
		}
	}
	return s, ""
}

func splitNames(s string) []string {
	var out []string
	for _, p := range strings.Split(s, ",") {
		p = strings.TrimSpace(p)
		if p != "" {
			out = append(out, p)
		}
	}
	return out
}

func splitTopLevel(s string, sep rune) []string {
	var out []string
	depth := 0
	last := 0
	for i, r := range s {
		switch r {
		case '(', '[', '{':
			depth++
		case ')', ']', '}':
			depth--
		default:
			if r == sep && depth == 0 {
				out = append(out, s[last:i])
				last = i + 1
			}
		}
	}
	out = append(out, s[last:])
	return out
}

// parseSpecFunc: Name(a T, b U) R [= body]
func parseSpecFunc(s, pkg string) (*SpecFunc, error) {
	i := strings.Index(s, "(")
	if i < 0 {
		return nil, fmt.Errorf("bad spec function")
	}
	name := strings.TrimSpace(s[:i])
	depth := 0
	j := i
	for ; j < len(s); j++ {
		if s[j] == '(' {
			depth++
		}
		if s[j] == ')' {
			depth--
			if depth == 0 {
				break
			}
		}
	}
	sf := &SpecFunc{Name: name, Pkg: pkg}
	for _, p := range splitTopLevel(s[i+1:j], ',') {
		p = strings.TrimSpace(p)
		if p == "" {
			continue
		}
		n, t := splitWord(p)
		sf.Params = append(sf.Params, SVar{Name: n, Type: strings.TrimSpace(t)})
	}
	rest := strings.TrimSpace(s[j+1:])
	body := ""
	if k := strings.Index(rest, "="); k >= 0 && !strings.HasPrefix(rest[k:], "==") {
		body = strings.TrimSpace(rest[k+1:])
		rest = strings.TrimSpace(rest[:k])
	}
	sf.Result = rest
	if body != "" {
		e, err := ParseSExpr(body)
		if err != nil {
			return nil, err
		}
		sf.Body = e
		sf.Rec = mentionsCall(e, name)
	}
	return sf, nil
}

func mentionsCall(e *SExpr, name string) bool {
	if e == nil {
		return false
	}
	if e.Kind == "call" && e.Name == name {
		return true
	}
	for _, a := range e.Args {
		if mentionsCall(a, name) {
			return true
		}
	}
	return false
}

// LoadRepoSpecs reads every zz_contracts_verif.go under the repo (falling back to the mirror).
func (db *SpecDB) LoadRepoSpecs(P *Program, mirror string) ([]string, error) {
	var notes []string
	for _, p := range P.Pkgs {
		if p.Module == nil || len(p.GoFiles) == 0 {
			continue
		}
		dir := filepath.Dir(p.GoFiles[0])
		f := filepath.Join(dir, "zz_contracts_verif.go")
		if _, err := os.Stat(f); err != nil {
			rel, _ := filepath.Rel(P.Dir, dir)
			m := filepath.Join(mirror, rel, "zz_contracts_verif.go")
			if _, err2 := os.Stat(m); err2 != nil {
				continue
			}
			notes = append(notes, "contract file missing in repo, mirror used: "+rel)
			f = m
		}
		if err := db.LoadSpecFile(f, shortPkg(p.PkgPath), false); err != nil {
			return notes, err
		}
	}
	return notes, nil
}

// ---------------------------------------------------------------------------
// Expression parser

type sTok struct {
	kind string // id int str op eof
	text string
}

type sParser struct {
	toks []sTok
	pos  int
	src  string
}

func lexSpec(s string) ([]sTok, error) {
	var toks []sTok
	i := 0
	for i < len(s) {
		c := s[i]
		switch {
		case c == ' ' || c == '\t':
			i++
		case unicode.IsLetter(rune(c)) || c == '_':
			j := i
			for j < len(s) && (unicode.IsLetter(rune(s[j])) || unicode.IsDigit(rune(s[j])) || s[j] == '_') {
				j++
			}
			toks = append(toks, sTok{"id", s[i:j]})
			i = j
		case unicode.IsDigit(rune(c)):
			j := i
			for j < len(s) && (unicode.IsDigit(rune(s[j])) || unicode.IsLetter(rune(s[j])) || s[j] == '_') {
				j++
			}
			toks = append(toks, sTok{"int", s[i:j]})
			i = j
		case c == '"':
			j := i + 1
			for j < len(s) && s[j] != '"' {
				if s[j] == '\\' {
					j++
				}
				j++
			}
			if j >= len(s) {
				return nil, fmt.Errorf("unterminated string")
			}
			v, err := strconv.Unquote(s[i : j+1])
			if err != nil {
				return nil, err
			}
			toks = append(toks, sTok{"str", v})
			i = j + 1
		case c == '\'':
			j := i + 1
			for j < len(s) && s[j] != '\'' {
				if s[j] == '\\' {
					j++
				}
				j++
			}
			if j >= len(s) {
				return nil, fmt.Errorf("unterminated char")
			}
			r, _, _, err := strconv.UnquoteChar(s[i+1:j], '\'')
			if err != nil {
				return nil, err
			}
			toks = append(toks, sTok{"int", strconv.Itoa(int(r))})
			i = j + 1
		default:
			ops := []string{"<==>", "==>", "::", "==", "!=", "<=", ">=", "&&", "||", "<<", ">>", "++"}
			matched := false
			for _, op := range ops {
				if strings.HasPrefix(s[i:], op) {
					toks = append(toks, sTok{"op", op})
					i += len(op)
					matched = true
					break
				}
			}
			if !matched {
				toks = append(toks, sTok{"op", string(c)})
				i++
			}
		}
	}
	toks = append(toks, sTok{"eof", ""})
	return toks, nil
}

func ParseSExpr(src string) (*SExpr, error) {
	toks, err := lexSpec(src)
	if err != nil {
		return nil, fmt.Errorf("%v in %q", err, src)
	}
	p := &sParser{toks: toks, src: src}
	var e *SExpr
	func() {
		defer func() {
			if r := recover(); r != nil {
				err = fmt.Errorf("%v in %q", r, src)
			}
		}()
		e = p.expr()
		if p.peek().kind != "eof" {
			panic(fmt.Sprintf("unexpected %q", p.peek().text))
		}
	}()
	if err != nil {
		return nil, err
	}
	e.Src = strings.TrimSpace(src)
	return e, nil
}

func (p *sParser) peek() sTok { return p.toks[p.pos] }
func (p *sParser) next() sTok { t := p.toks[p.pos]; p.pos++; return t }
func (p *sParser) isOp(s string) bool {
	t := p.peek()
	return t.kind == "op" && t.text == s
}
func (p *sParser) accept(s string) bool {
	if p.isOp(s) {
		p.pos++
		return true
	}
	return false
}
func (p *sParser) expect(s string) {
	if !p.accept(s) {
		panic(fmt.Sprintf("expected %q, got %q", s, p.peek().text))
	}
}

func (p *sParser) expr() *SExpr {
	t := p.peek()
	if t.kind == "id" && (t.text == "forall" || t.text == "exists") {
		p.next()
		q := &SExpr{Kind: "quant", Op: t.text}
		for {
			n := p.next()
			if n.kind != "id" {
				panic("quantifier variable expected")
			}
			ty := p.typeName()
			q.Vars = append(q.Vars, SVar{Name: n.text, Type: ty})
			if !p.accept(",") {
				break
			}
		}
		p.expect("::")
		for p.isOp("{") {
			p.next()
			var pat []*SExpr
			for {
				pat = append(pat, p.expr())
				if !p.accept(",") {
					break
				}
			}
			p.expect("}")
			q.Pats = append(q.Pats, pat)
		}
		q.Args = []*SExpr{p.expr()}
		return q
	}
	return p.iff()
}

// typeName: identifier, optionally qualified / pointer / slice: int, *Packet, []byte, pkg.T
func (p *sParser) typeName() string {
	var sb strings.Builder
	for {
		t := p.peek()
		if t.kind == "op" && (t.text == "*" || t.text == "[" || t.text == "]") {
			sb.WriteString(t.text)
			p.next()
			continue
		}
		break
	}
	t := p.next()
	if t.kind != "id" {
		panic("type name expected")
	}
	sb.WriteString(t.text)
	for p.isOp(".") {
		p.next()
		sb.WriteString("." + p.next().text)
	}
	return sb.String()
}

func (p *sParser) iff() *SExpr {
	l := p.implies()
	for p.accept("<==>") {
		r := p.implies()
		l = &SExpr{Kind: "binary", Op: "<==>", Args: []*SExpr{l, r}}
	}
	return l
}

func (p *sParser) implies() *SExpr {
	l := p.cond()
	if p.accept("==>") {
		t := p.peek()
		var r *SExpr
		if t.kind == "id" && (t.text == "forall" || t.text == "exists") {
			r = p.expr()
		} else {
			r = p.implies()
		}
		return &SExpr{Kind: "binary", Op: "==>", Args: []*SExpr{l, r}}
	}
	return l
}

func (p *sParser) cond() *SExpr {
	c := p.or()
	if p.accept("?") {
		a := p.cond()
		p.expect(":")
		b := p.cond()
		return &SExpr{Kind: "cond", Args: []*SExpr{c, a, b}}
	}
	return c
}

func (p *sParser) or() *SExpr {
	l := p.and()
	for p.accept("||") {
		l = &SExpr{Kind: "binary", Op: "||", Args: []*SExpr{l, p.and()}}
	}
	return l
}

func (p *sParser) and() *SExpr {
	l := p.cmp()
	for p.accept("&&") {
		l = &SExpr{Kind: "binary", Op: "&&", Args: []*SExpr{l, p.cmp()}}
	}
	return l
}

func (p *sParser) cmp() *SExpr {
	l := p.add()
	for {
		t := p.peek()
		if t.kind == "op" && (t.text == "==" || t.text == "!=" || t.text == "<" || t.text == "<=" || t.text == ">" || t.text == ">=") {
			p.next()
			r := p.add()
			l = &SExpr{Kind: "binary", Op: t.text, Args: []*SExpr{l, r}}
			continue
		}
		if t.kind == "id" && t.text == "in" {
			p.next()
			r := p.add()
			l = &SExpr{Kind: "binary", Op: "in", Args: []*SExpr{l, r}}
			continue
		}
		return l
	}
}

func (p *sParser) add() *SExpr {
	l := p.mul()
	for {
		t := p.peek()
		if t.kind == "op" && (t.text == "+" || t.text == "-") {
			p.next()
			l = &SExpr{Kind: "binary", Op: t.text, Args: []*SExpr{l, p.mul()}}
			continue
		}
		return l
	}
}

func (p *sParser) mul() *SExpr {
	l := p.unary()
	for {
		t := p.peek()
		if t.kind == "op" && (t.text == "*" || t.text == "/" || t.text == "%") {
			p.next()
			l = &SExpr{Kind: "binary", Op: t.text, Args: []*SExpr{l, p.unary()}}
			continue
		}
		return l
	}
}

func (p *sParser) unary() *SExpr {
	t := p.peek()
	if t.kind == "op" && (t.text == "!" || t.text == "-" || t.text == "*" || t.text == "&") {
		p.next()
		return &SExpr{Kind: "unary", Op: t.text, Args: []*SExpr{p.unary()}}
	}
	return p.postfix()
}

func (p *sParser) postfix() *SExpr {
	e := p.primary()
	for {
		switch {
		case p.isOp("."):
			p.next()
			n := p.next()
			if n.kind != "id" {
				panic("field name expected")
			}
			e = &SExpr{Kind: "sel", Name: n.text, Args: []*SExpr{e}}
		case p.isOp("["):
			p.next()
			var lo, hi *SExpr
			if !p.isOp(":") {
				lo = p.expr()
			}
			if p.accept(":") {
				if !p.isOp("]") {
					hi = p.expr()
				}
				p.expect("]")
				e = &SExpr{Kind: "slice", Args: []*SExpr{e, lo, hi}}
			} else {
				p.expect("]")
				e = &SExpr{Kind: "index", Args: []*SExpr{e, lo}}
			}
		case p.isOp("(") && (e.Kind == "ident" || e.Kind == "sel"):
			p.next()
			call := &SExpr{Kind: "call"}
			if e.Kind == "ident" {
				call.Name = e.Name
			} else {
				// method-like call x.f(args): name f with receiver as first arg
				call.Name = "." + e.Name
				call.Args = append(call.Args, e.Args[0])
			}
			if !p.isOp(")") {
				for {
					call.Args = append(call.Args, p.expr())
					if !p.accept(",") {
						break
					}
				}
			}
			p.expect(")")
			e = call
		default:
			return e
		}
	}
}

func (p *sParser) primary() *SExpr {
	t := p.next()
	switch t.kind {
	case "id":
		switch t.text {
		case "forall", "exists":
			p.pos--
			return p.expr()
		case "true", "false":
			return &SExpr{Kind: "bool", Name: t.text}
		case "nil":
			return &SExpr{Kind: "nil"}
		}
		return &SExpr{Kind: "ident", Name: t.text}
	case "int":
		v, ok := new(big.Int).SetString(strings.ReplaceAll(t.text, "_", ""), 0)
		if !ok {
			panic("bad integer " + t.text)
		}
		return &SExpr{Kind: "int", Int: v}
	case "str":
		return &SExpr{Kind: "str", Str: t.text}
	case "op":
		if t.text == "(" {
			e := p.expr()
			p.expect(")")
			return &SExpr{Kind: "paren", Args: []*SExpr{e}}
		}
	}
	panic(fmt.Sprintf("unexpected token %q", t.text))
}

package main

import (
	"fmt"
	"go/token"
	"go/types"
	"os"
	"regexp"
	"sort"
	"strings"

	"golang.org/x/tools/go/ssa"
)

// calleeNames: the names a call-site pattern may use for this call.
func (X *Exec) calleeNames(cc *ssa.CallCommon) []string {
	var out []string
	if cc.IsInvoke() {
		recvT := cc.Value.Type()
		tn := typeKey(recvT)
		out = append(out, tn+"."+cc.Method.Name(), cc.Method.Name())
		if i := strings.LastIndex(tn, "."); i >= 0 {
			out = append(out, tn[i+1:]+"."+cc.Method.Name())
		}
		return out
	}
	switch v := cc.Value.(type) {
	case *ssa.Function:
		if o := v.Origin(); o != nil {
			v = o // instantiation of a generic function (of the repository or of a library): known by the generic's names
		}
		k := X.E.P.Keys[v]
		if k == "" {
			k = externKey(v)
		}
		out = append(out, k)
		if i := strings.Index(k, "."); i >= 0 {
			out = append(out, k[i+1:])
		}
		out = append(out, v.Name())
	case *ssa.Builtin:
		out = append(out, v.Name())
	case *ssa.MakeClosure:
		f := v.Fn.(*ssa.Function)
		k := X.E.P.Keys[f]
		out = append(out, k, f.Name())
	default:
		out = append(out, srcName(cc.Value))
		s := srcName(cc.Value)
		if i := strings.LastIndex(s, "."); i >= 0 {
			out = append(out, s[i+1:])
		}
	}
	return out
}

func externKey(fn *ssa.Function) string {
	pkg := ""
	if fn.Pkg != nil {
		pkg = fn.Pkg.Pkg.Path()
	} else if fn.Object() != nil && fn.Object().Pkg() != nil {
		pkg = fn.Object().Pkg().Path()
	}
	if recv := fn.Signature.Recv(); recv != nil {
		t := recv.Type()
		star := ""
		if p, ok := t.(*types.Pointer); ok {
			t = p.Elem()
			star = "*"
		}
		name := t.String()
		if n, ok := t.(*types.Named); ok {
			name = n.Obj().Name()
			if n.Obj().Pkg() != nil {
				pkg = n.Obj().Pkg().Path()
			}
		}
		return fmt.Sprintf("%s.(%s%s).%s", pkg, star, name, fn.Name())
	}
	return pkg + "." + fn.Name()
}

func (X *Exec) matchCallsites(fr *Frame, cc *ssa.CallCommon, how string) []*CallsiteSpec {
	fs := X.specOf(fr)
	if fs == nil || len(fs.Callsites) == 0 {
		return nil
	}
	names := X.calleeNames(cc)
	var out []*CallsiteSpec
	for _, cs := range fs.Callsites {
		if cs.ViaGo == "go" && how != "go" {
			continue
		}
		if cs.ViaGo == "sync" && how == "go" {
			continue
		}
		for _, n := range names {
			if n == cs.Pattern {
				out = append(out, cs)
				break
			}
		}
	}
	return out
}

// specOf: the contract whose callsite clauses / ghosts apply in this frame (the frame's own function).
func (X *Exec) specOf(fr *Frame) *FuncSpec {
	if fr.Spec != nil {
		return fr.Spec
	}
	fs := X.E.Specs.Funcs[X.E.P.Keys[fr.Fn]]
	if fs != nil && fr != X.TopFrame && len(fs.Ghosts) > 0 {
		// an inlined callee whose protocol clauses speak about its own ghosts: they are checked when that
		// function is verified itself, not inside its callers
		for _, g := range fs.Ghosts {
			if _, ok := X.ghostTypes[g.Name]; !ok {
				return nil
			}
		}
	}
	return fs
}

func (X *Exec) argVals(fr *Frame, cc *ssa.CallCommon) (recv *Val, args []*Val) {
	if cc.IsInvoke() {
		recv = X.val(fr, cc.Value)
	}
	for _, a := range cc.Args {
		args = append(args, X.val(fr, a))
	}
	return
}

// applyCallsites evaluates the caller-side protocol clauses attached to this call.
func (X *Exec) applyCallsites(fr *Frame, st *State, cc *ssa.CallCommon, how string, pos token.Pos) (skip, havoc bool) {
	css := X.matchCallsites(fr, cc, how)
	if len(css) == 0 {
		return
	}
	recv, args := X.argVals(fr, cc)
	lvars := X.loopVarsAt(fr, st, X.curIns)
	for _, cs := range css {
		cs.Hits++
		vars := map[string]*Val{}
		if recv != nil {
			vars["recv"] = recv
		}
		sig := cc.Signature()
		off := 0
		if !cc.IsInvoke() && sig.Recv() != nil && len(args) > 0 {
			vars["recv"] = args[0]
			off = 1
		}
		for k, a := range args[off:] {
			vars[fmt.Sprintf("arg%d", k)] = a
		}
		vars["viago"] = &Val{T: X.E.TS.Bool(how == "go"), GT: types.Typ[types.Bool]}
		for k, v := range lvars {
			vars[k] = v // rangeindex / rangelen of the innermost loop around the call
		}
		if !cc.IsInvoke() && cc.StaticCallee() == nil {
			if _, isB := cc.Value.(*ssa.Builtin); !isB {
				vars["callee"] = X.val(fr, cc.Value) // the function value of a dynamic call
			}
		}
		for _, c := range cs.Requires {
			t := X.evalClauseRenamed(fr, st, c, vars)
			X.oblige(st, "callsite", c.Label, fmt.Sprintf("at call %s: %s", cs.Pattern, c.Src), pos, t)
		}
		for _, u := range cs.Updates {
			srt, ok := X.ghostTypes[u.Name]
			if !ok {
				panic("update of undeclared ghost " + u.Name)
			}
			sc := X.clauseCtx(fr, st, vars, "update "+u.Name)
			X.setHeap(st, "GH|"+u.Name, srt, sc.evalGhost(u.Expr, srt))
		}
		if cs.Snapshot {
			st.Snap = st.Clone()
		}
		if cs.MayPanic && how != "go" {
			// the panic path: the state as it is before the call, with a fresh non-nil panic value
			ps := st.Clone()
			pv := X.E.TS.Fresh("panicval", SIface)
			ps.assume(X.E.TS, X.E.TS.Not(X.E.TS.Eq(pv, X.E.IfaceNil())))
			X.setHeap(ps, "GH|~panicval", SIface, pv)
			X.setHeap(ps, "GH|~panicked", SBool, X.E.TS.True())
			fr.PanicStates = append(fr.PanicStates, ps)
		}
		if cs.Skip {
			skip = true
		}
		if cs.Havoc {
			havoc = true
		}
	}
	return
}

func (X *Exec) clauseCtx(fr *Frame, st *State, extra map[string]*Val, what string) *SpecCtx {
	c := &SpecCtx{X: X, St: st, Old: X.frameEntry(fr), Vars: map[string]*Val{}, OldVars: map[string]*Val{}, Bound: map[string]*Val{}, Fr: fr, What: what}
	if fr.Fn.Pkg != nil {
		c.Pkg = fr.Fn.Pkg.Pkg
	} else if fr.Fn.Object() != nil {
		c.Pkg = fr.Fn.Object().Pkg()
	} else if fr.Fn.Parent() != nil && fr.Fn.Parent().Pkg != nil {
		c.Pkg = fr.Fn.Parent().Pkg.Pkg
	}
	for k, v := range fr.ParamEntry {
		c.OldVars[k] = v
	}
	for k, v := range extra {
		c.Vars[k] = v
	}
	c.TypeEnv = typeEnvOf(fr.Fn)
	c.Snap = st.Snap
	return c
}

// typeEnvOf: the type parameters visible in a (generic) function, by name.
func typeEnvOf(fn *ssa.Function) map[string]types.Type {
	for f := fn; f != nil; f = f.Parent() {
		var tps *types.TypeParamList
		if f.Signature.Recv() != nil {
			tps = f.Signature.RecvTypeParams()
		}
		env := map[string]types.Type{}
		if tps != nil {
			for i := 0; i < tps.Len(); i++ {
				env[tps.At(i).Obj().Name()] = tps.At(i)
			}
		}
		if tp := f.Signature.TypeParams(); tp != nil {
			for i := 0; i < tp.Len(); i++ {
				env[tp.At(i).Obj().Name()] = tp.At(i)
			}
		}
		if len(env) > 0 {
			return env
		}
	}
	return nil
}

func (X *Exec) frameEntry(fr *Frame) *State {
	if fr.EntryState != nil {
		return fr.EntryState
	}
	return X.Entry
}

// evalClause evaluates a clause inside frame fr (named locals visible with their current values).
func (X *Exec) evalClause(fr *Frame, st *State, c *Clause, extra map[string]*Val) *Term {
	sc := X.clauseCtx(fr, st, extra, fmt.Sprintf("%s:%d", c.File, c.Line))
	return sc.EvalBool(c.Expr)
}

// evalClauseRenamed: like evalClause for an obligation clause (call-site requires), but a clause that names a local
// the function no longer has (a rename) is taken with each other named local of the function in that role; the
// obligation becomes the disjunction of those readings (weaker than the original, never stronger: no false alarm from
// a rename, and a change that breaks every reading is still reported).
func (X *Exec) evalClauseRenamed(fr *Frame, st *State, c *Clause, extra map[string]*Val) (t *Term) {
	var missing string
	func() {
		defer func() {
			if r := recover(); r != nil {
				if se, ok := r.(specErr); ok {
					if m := regexp.MustCompile(`unknown identifier "([^"]+)"`).FindStringSubmatch(se.msg); m != nil {
						missing = m[1]
						return
					}
				}
				panic(r)
			}
		}()
		t = X.evalClause(fr, st, c, extra)
	}()
	if missing == "" {
		return t
	}
	var names []string
	seen := map[string]bool{}
	add := func(n string) {
		if n != "" && !seen[n] && !strings.HasPrefix(n, "range") && !strings.Contains(n, "$") && !strings.Contains(n, ".") {
			seen[n] = true
			names = append(names, n)
		}
	}
	for a := range fr.Cells {
		add(a.Comment)
	}
	for v := range fr.Regs {
		if a, ok := v.(*ssa.Alloc); ok && a.Heap {
			add(a.Comment)
		}
	}
	sort.Strings(names)
	var alts []*Term
	for _, alt := range names {
		cl := *c
		cl.Expr = renameIdent(c.Expr, missing, alt)
		func() {
			defer func() {
				_ = recover() // a local of another type in that role does not fit (spec error or a sort clash)
			}()
			alts = append(alts, X.evalClause(fr, st.Clone(), &cl, extra))
		}()
	}
	if len(alts) == 0 {
		panic(specErr{fmt.Sprintf("unknown identifier %q [in %s:%d] (no other local fits)", missing, c.File, c.Line)})
	}
	X.E.warn("%s: clause names the missing local %q: taken as any of the function's %d other locals that fit: %s", X.E.P.Keys[fr.Fn], missing, len(alts), c.Src)
	return X.E.TS.Or(alts...)
}

// evalClauseTop evaluates a clause of the top-level contract with parameters at their entry values.
func (X *Exec) evalClauseTop(st *State, c *Clause) *Term {
	fr := X.TopFrame
	sc := X.clauseCtx(fr, st, nil, fmt.Sprintf("%s:%d", c.File, c.Line))
	// captured variables of a closure verified on its own are visible by name; locals are not
	sc.Fr = &Frame{Fn: fr.Fn, Free: fr.Free, Cells: map[*ssa.Alloc]*Cell{}, Regs: map[ssa.Value]*Val{}}
	for k, v := range fr.ParamEntry {
		sc.Vars[k] = v
	}
	return sc.EvalBool(c.Expr)
}

// ---------------------------------------------------------------------------

func (X *Exec) execGo(fr *Frame, i *ssa.Go, st *State) {
	X.curIns = i
	X.applyCallsites(fr, st, &i.Call, "go", i.Pos())
	X.curIns = nil
	names := X.calleeNames(&i.Call)
	if len(names) > 0 {
		X.Spawns = append(X.Spawns, X.E.P.Keys[fr.Fn]+" spawns "+names[0])
	}
}

func (X *Exec) execDefer(fr *Frame, i *ssa.Defer, st *State) {
	d := &DeferRec{Instr: i, Frame: fr}
	if !i.Call.IsInvoke() {
		d.Fn = X.val(fr, i.Call.Value)
	} else {
		d.Fn = X.val(fr, i.Call.Value)
	}
	for _, a := range i.Call.Args {
		d.Args = append(d.Args, X.val(fr, a))
	}
	st.Defers = append(st.Defers, d)
}

func (X *Exec) execRunDefers(fr *Frame, i *ssa.RunDefers, st *State) {
	ts := X.E.TS
	// run this frame's deferred calls, last in first out
	for {
		n := -1
		for k := len(st.Defers) - 1; k >= 0; k-- {
			if st.Defers[k].Frame == fr {
				n = k
				break
			}
		}
		if n < 0 {
			return
		}
		d := st.Defers[n]
		st.Defers = append(st.Defers[:n:n], st.Defers[n+1:]...)
		if d.Guard == nil || isTrue(d.Guard) {
			X.execCallWith(fr, d.Instr, &d.Instr.Call, st, "defer", d.Fn, d.Args)
			continue
		}
		// conditional defer: run it on the paths that registered it
		with := st.Clone()
		with.branch(ts, d.Guard)
		without := st.Clone()
		without.branch(ts, ts.Not(d.Guard))
		X.execCallWith(fr, d.Instr, &d.Instr.Call, with, "defer", d.Fn, d.Args)
		m := X.merge([]*State{with, without})
		*st = *m
	}
}

// ---------------------------------------------------------------------------

func (X *Exec) execCall(fr *Frame, ins ssa.Instruction, cc *ssa.CallCommon, st *State, how string) *Val {
	var fnv *Val
	if _, isB := cc.Value.(*ssa.Builtin); !isB {
		fnv = X.val(fr, cc.Value)
	}
	var args []*Val
	for _, a := range cc.Args {
		args = append(args, X.val(fr, a))
	}
	return X.execCallWith(fr, ins, cc, st, how, fnv, args)
}

func (X *Exec) resultType(cc *ssa.CallCommon) types.Type {
	res := cc.Signature().Results()
	switch res.Len() {
	case 0:
		return nil
	case 1:
		return res.At(0).Type()
	}
	return res
}

func (X *Exec) freshResults(st *State, cc *ssa.CallCommon, hint string) *Val {
	rt := X.resultType(cc)
	if rt == nil {
		return nil
	}
	return X.freshVal(st, rt, hint)
}

func (X *Exec) execCallWith(fr *Frame, ins ssa.Instruction, cc *ssa.CallCommon, st *State, how string, fnv *Val, args []*Val) *Val {
	// call-site assumptions: evaluated after the call against a snapshot taken before it
	var assumes, afters []*Clause
	for _, cs := range X.matchCallsites(fr, cc, how) {
		assumes = append(assumes, cs.Assumes...)
		afters = append(afters, cs.After...)
	}
	if len(assumes) > 0 || len(afters) > 0 {
		before := st.Clone()
		res := X.execCallWith2(fr, ins, cc, st, how, fnv, args)
		rv := map[string]*Val{}
		{
			// the call's receiver and arguments, as in the before-call clauses
			sig := cc.Signature()
			off := 0
			if cc.IsInvoke() && fnv != nil {
				rv["recv"] = fnv
			}
			if !cc.IsInvoke() && sig.Recv() != nil && len(args) > 0 {
				rv["recv"] = args[0]
				off = 1
			}
			for k, a := range args[off:] {
				rv[fmt.Sprintf("arg%d", k)] = a
			}
		}
		if res != nil {
			if res.Tuple != nil {
				for i, v := range res.Tuple {
					rv[fmt.Sprintf("result%d", i)] = v
				}
			} else {
				rv["result"], rv["result0"] = res, res
			}
		}
		for _, u := range afters {
			srt, ok := X.ghostTypes[u.Name]
			if !ok {
				panic("updateafter of undeclared ghost " + u.Name)
			}
			sc := X.clauseCtx(fr, st, rv, "updateafter "+u.Name)
			sc.Pre = before
			X.setHeap(st, "GH|"+u.Name, srt, sc.evalGhost(u.Expr, srt))
		}
		for _, a := range assumes {
			sc := X.clauseCtx(fr, st, rv, fmt.Sprintf("%s:%d", a.File, a.Line))
			sc.Pre = before
			st.assume(X.E.TS, sc.EvalBool(a.Expr))
			X.CallsiteAssumptions[fmt.Sprintf("%s: after %s: %s", X.E.P.Keys[fr.Fn], srcName(cc.Value), a.Src)]++
		}
		return res
	}
	return X.execCallWith2(fr, ins, cc, st, how, fnv, args)
}

func (X *Exec) execCallWith2(fr *Frame, ins ssa.Instruction, cc *ssa.CallCommon, st *State, how string, fnv *Val, args []*Val) *Val {
	pos := ins.Pos()
	if X.LockMode && how != "go" && !cc.IsInvoke() && cc.StaticCallee() == nil && cc.Value != nil && isHandlerType(cc.Value.Type()) {
		X.noLockAcrossCallback(fr, st, "handler "+srcName(cc.Value)+" ("+typeKey(cc.Value.Type())+")", pos)
	}
	if X.LockMode && how != "go" {
		if sc := cc.StaticCallee(); sc != nil {
			k := X.E.P.Keys[sc]
			if k == "" && sc.Origin() != nil {
				k = X.E.P.Keys[sc.Origin()]
			}
			if fs := X.E.Specs.Funcs[k]; fs != nil && fs.Callback {
				X.noLockAcrossCallback(fr, st, shortName(k)+", which runs user handlers synchronously", pos)
			}
		}
	}
	if sc := cc.StaticCallee(); sc != nil && sc.Synthetic == "package initializer" {
		// initialisation of an imported package: it ran before and touches nothing this package's own initial values
		// depend on (package-level variables are read as constants)
		return nil
	}
	X.curIns = ins
	skip, forceHavoc := X.applyCallsites(fr, st, cc, how, pos)
	X.curIns = nil
	if skip {
		return X.freshResults(st, cc, "skipped")
	}
	if b, ok := cc.Value.(*ssa.Builtin); ok {
		return X.execBuiltin(fr, ins, b, cc, st, args)
	}
	if forceHavoc {
		X.havocAll(st, "cs")
		return X.freshResults(st, cc, "havoc")
	}
	if cc.IsInvoke() {
		return X.execInvoke(fr, ins, cc, st, fnv, args)
	}
	var callee *ssa.Function
	var bindings []*Val
	switch v := cc.Value.(type) {
	case *ssa.Function:
		callee = v
	case *ssa.MakeClosure:
		callee = v.Fn.(*ssa.Function)
		for _, b := range v.Bindings {
			bindings = append(bindings, X.val(fr, b))
		}
	default:
		if fnv != nil && fnv.Clo != nil {
			callee, bindings = fnv.Clo.Fn, fnv.Clo.Bindings
		} else if fnv != nil && fnv.T != nil {
			if c, ok := st.Clos[fnv.T]; ok {
				callee, bindings = c.Fn, c.Bindings
			}
		}
	}
	if callee == nil {
		// unknown function value
		ts := X.E.TS
		if fnv != nil && fnv.T != nil {
			X.oblige(st, "nil", "", "call of nil function value "+srcName(cc.Value), pos, ts.Not(ts.Eq(fnv.T, ts.IntLit(0))))
		}
		X.Uncontracted["dynamic call "+srcName(cc.Value)+" in "+X.E.P.Keys[fr.Fn]]++

		X.havocAll(st, "dyn")
		return X.freshResults(st, cc, "dyn")
	}
	return X.callFunction(fr, ins, callee, bindings, cc, st, args)
}

func (X *Exec) callFunction(fr *Frame, ins ssa.Instruction, callee *ssa.Function, bindings []*Val, cc *ssa.CallCommon, st *State, args []*Val) *Val {
	pos := ins.Pos()
	key := X.E.P.Keys[callee]
	inRepo := key != ""
	var instance *ssa.Function // the instantiation actually called, when callee is replaced by its generic origin
	if !inRepo {
		key = externKey(callee)
		// synthetic wrappers / instantiations of generic functions
		if callee.Origin() != nil {
			if k := X.E.P.Keys[callee.Origin()]; k != "" {
				key, inRepo = k, true
				X.pendingTypeArgs = callee.TypeArgs()
				instance = callee
				if os.Getenv("GOVC_DBG") != "" {
					fmt.Fprintf(os.Stderr, "instance %s synthetic=%q blocks=%d\n", instance, instance.Synthetic, len(instance.Blocks))
				}
				callee = callee.Origin()
			}
		}
	}
	if X.LockMode && key == "reflect.(Value).Call" {
		X.noLockAcrossCallback(fr, st, "a handler through reflect.Value.Call", pos)
	}
	if r, ok := X.specialCall(fr, ins, callee, key, cc, st, args); ok {
		return r
	}
	if X.E.BV && !inRepo {
		if r, ok := X.bvExtern(key, args, st); ok {
			X.UsedTrusted["bv-mode meaning of "+key]++
			return r
		}
	}
	var fs *FuncSpec
	if inRepo {
		fs = X.E.Specs.Funcs[key]
	} else {
		fs = X.E.Specs.Funcs["extern:"+key]
		if fs == nil {
			if i := strings.Index(key, "["); i >= 0 {
				fs = X.E.Specs.Funcs["extern:"+key[:i]] // any instantiation of a generic function
			}
		}
	}
	if fs != nil && X.LockMode && len(fs.Holds) > 0 && len(bindings) == 0 {
		// the callee is verified with these locks held on entry: its callers owe that
		sc := &SpecCtx{X: X, St: st, Old: st, Vars: map[string]*Val{}, OldVars: map[string]*Val{}, Bound: map[string]*Val{}, Pkg: calleePkg(callee, fs, X, fr), What: "holds of " + key}
		names := X.paramNames(callee, fs, cc.Signature(), false)
		for i, n := range names {
			if i < len(args) {
				sc.Vars[n] = args[i]
				sc.OldVars[n] = args[i]
			}
		}
		for _, h := range fs.Holds {
			lk := sc.lockRef(h)
			cur := X.E.TS.Select(X.heap(st, lk.heap, ArraySort(SInt, SInt)), lk.idx)
			X.oblige(st, "lockset", "", fmt.Sprintf("%s is called with %s held", shortName(key), h.Src), pos, X.E.TS.Not(X.E.TS.Eq(cur, X.E.TS.IntLit(0))))
		}
	}
	if fs != nil && !fs.Inline && (len(fs.Ensures) > 0 || len(fs.Requires) > 0 || fs.Pure || fs.ModAll || len(fs.Modifies) > 0 || fs.Trusted) {
		X.pendingBindings = bindings
		return X.applyContract(fr, st, fs, callee, nil, cc, args, pos)
	}
	X.pendingTypeArgs = nil
	if instance != nil && instance.Blocks != nil && X.canInline(instance) {
		// inline the instantiation itself: its values have the sorts of the actual type arguments
		X.Inlined[key]++
		return X.inlineCall(fr, st, instance, bindings, args, pos)
	}
	if inRepo && callee.Blocks != nil && X.canInline(callee) {
		return X.inlineCall(fr, st, callee, bindings, args, pos)
	}
	X.Uncontracted[key]++
	X.havocAll(st, "call")
	return X.freshResults(st, cc, "call")
}

func (X *Exec) canInline(callee *ssa.Function) bool {
	if len(X.inlineStack) >= X.MaxInline {
		return false
	}
	for _, f := range X.inlineStack {
		if f == callee {
			return false
		}
	}
	if callee == X.TopFn {
		return false
	}
	n := 0
	for _, b := range callee.Blocks {
		n += len(b.Instrs)
	}
	return n <= 400
}

func (X *Exec) paramNames(callee *ssa.Function, fs *FuncSpec, sig *types.Signature, isInvoke bool) (names []string) {
	if callee != nil && callee.Blocks != nil {
		for _, p := range callee.Params {
			names = append(names, p.Name())
		}
		return
	}
	if fs != nil && len(fs.Params) > 0 {
		return fs.Params
	}
	if sig.Recv() != nil && !isInvoke {
		n := sig.Recv().Name()
		if n == "" || n == "_" {
			n = "recv"
		}
		names = append(names, n)
	}
	for i := 0; i < sig.Params().Len(); i++ {
		n := sig.Params().At(i).Name()
		if n == "" || n == "_" {
			n = fmt.Sprintf("arg%d", i)
		}
		names = append(names, n)
	}
	return
}

func resultNames(fs *FuncSpec, sig *types.Signature) []string {
	var out []string
	for i := 0; i < sig.Results().Len(); i++ {
		n := sig.Results().At(i).Name()
		if fs != nil && i < len(fs.Results) {
			n = fs.Results[i]
		}
		out = append(out, n)
	}
	return out
}

// applyContract: assert requires, havoc modifies, assume ensures.
func (X *Exec) applyContract(fr *Frame, st *State, fs *FuncSpec, callee *ssa.Function, recv *Val, cc *ssa.CallCommon, args []*Val, pos token.Pos) *Val {
	ts := X.E.TS
	bindings := X.pendingBindings
	X.pendingBindings = nil
	typeArgs := X.pendingTypeArgs
	X.pendingTypeArgs = nil
	sig := cc.Signature()
	if fs.Trusted {
		X.UsedTrusted[fs.Key]++
	}
	vars := map[string]*Val{}
	names := X.paramNames(callee, fs, sig, recv != nil)
	all := args
	if recv != nil {
		vars["recv"] = recv
		if len(names) == len(args)+1 {
			all = append([]*Val{recv}, args...)
		}
	}
	for i, n := range names {
		if i < len(all) {
			vars[n] = all[i]
		}
	}
	for k, a := range args {
		if _, ok := vars[fmt.Sprintf("arg%d", k)]; !ok {
			vars[fmt.Sprintf("arg%d", k)] = a
		}
	}
	pkg := calleePkg(callee, fs, X, fr)
	mk := func(cur, old *State, what string) *SpecCtx {
		c := &SpecCtx{X: X, St: cur, Old: old, Vars: map[string]*Val{}, OldVars: map[string]*Val{}, Bound: map[string]*Val{}, Pkg: pkg, What: what}
		if callee != nil {
			c.TypeEnv = typeEnvOf(callee)
			if len(typeArgs) > 0 {
				// an instantiation: the type parameters stand for the actual type arguments
				env := map[string]types.Type{}
				tps := callee.Signature.RecvTypeParams()
				if tps == nil || tps.Len() == 0 {
					tps = callee.Signature.TypeParams()
				}
				if tps != nil && tps.Len() == len(typeArgs) {
					for i := 0; i < tps.Len(); i++ {
						env[tps.At(i).Obj().Name()] = typeArgs[i]
					}
					c.TypeEnv = env
				}
			}
			// the captured variables of a closure called by contract: visible by name, read through their cells
			if len(bindings) == len(callee.FreeVars) && len(bindings) > 0 {
				c.FreeBind = map[string]*Val{}
				for i, fv := range callee.FreeVars {
					c.FreeBind[fv.Name()] = bindings[i]
				}
			}
		}
		for k, v := range vars {
			c.Vars[k] = v
			c.OldVars[k] = v
		}
		return c
	}
	// a method with a pointer receiver is verified for non-nil receivers: callers owe that
	if callee != nil && callee.Signature.Recv() != nil && recv == nil && len(args) > 0 && args[0].T != nil {
		if _, ok := callee.Signature.Recv().Type().Underlying().(*types.Pointer); ok && callee.Blocks != nil {
			X.oblige(st, "nil", "", "nil receiver in call of "+fs.Key, pos, ts.Not(ts.Eq(args[0].T, ts.IntLit(0))))
		}
	}
	// a contract stated over bit-vectors / floats (ints bv) means nothing to a caller verified over mathematical
	// integers: only its frame is used there (results unconstrained)
	foreignInts := fs.Ints == "bv" && !X.E.BV
	for _, r := range fs.Requires {
		if foreignInts {
			break
		}
		t := mk(st, st, fmt.Sprintf("%s:%d", r.File, r.Line)).EvalBool(r.Expr)
		X.oblige(st, "pre", r.Label, fmt.Sprintf("precondition of %s: %s", fs.Key, r.Src), pos, t)
	}
	if st.Dead {
		return X.freshResults(st, cc, "dead")
	}
	old := st.Clone()
	if fs.ModAll || (len(fs.Modifies) == 0 && !fs.Pure && !fs.Trusted && callee != nil && callee.Blocks != nil) {
		// a contract of a function of the repository that does not list what it modifies promises no frame
		X.havocAll(st, "mod")
	} else {
		X.havocAlloc(st, "call") // any call may allocate
	}
	for _, loc := range fs.Modifies {
		X.havocLoc(mk(old, old, "modifies of "+fs.Key), st, loc)
	}
	res := X.freshResults(st, cc, "r."+shortName(fs.Key))
	rn := resultNames(fs, sig)
	post := mk(st, old, "")
	if res != nil {
		if res.Tuple != nil {
			for i, v := range res.Tuple {
				post.Vars[fmt.Sprintf("result%d", i)] = v
				if i < len(rn) && rn[i] != "" && rn[i] != "_" {
					post.Vars[rn[i]] = v
				}
			}
		} else {
			post.Vars["result"] = res
			post.Vars["result0"] = res
			if len(rn) > 0 && rn[0] != "" && rn[0] != "_" {
				post.Vars[rn[0]] = res
			}
		}
	}
	nens := 0
	for _, e := range fs.Ensures {
		if foreignInts {
			break
		}
		if mentionsGhost(e.Expr, fs) {
			continue // a statement about the callee's own ghost trace: means nothing to a caller
		}
		post.What = fmt.Sprintf("%s:%d", e.File, e.Line)
		st.assume(ts, post.EvalBool(e.Expr))
		nens++
	}
	if nens > 0 && !X.probe && !X.LockOnly && X.scratchDepth == 0 && !st.Dead {
		// vacuity guard: a contract whose postconditions contradict the caller's state (a wrong frame, an
		// inconsistent clause) would kill this path and make everything after the call vacuously true
		X.Obls = append(X.Obls, &Obligation{Fn: X.TopKey, Kind: "cover", Pos: X.pos(pos), Desc: "the contract of " + fs.Key + " leaves a satisfiable state at this call", Hyp: st.PC, PreHyp: old.PC, Goal: ts.True(), WantSat: true})
	}
	return res
}

func shortName(k string) string {
	if i := strings.LastIndex(k, "."); i >= 0 {
		return k[i+1:]
	}
	return k
}

func calleePkg(callee *ssa.Function, fs *FuncSpec, X *Exec, fr *Frame) *types.Package {
	if callee != nil {
		if callee.Pkg != nil {
			return callee.Pkg.Pkg
		}
		if callee.Object() != nil && callee.Object().Pkg() != nil {
			return callee.Object().Pkg()
		}
		if callee.Parent() != nil && callee.Parent().Pkg != nil {
			return callee.Parent().Pkg.Pkg
		}
	}
	if fs != nil && fs.Pkg != "" {
		for _, p := range X.E.P.Pkgs {
			if shortPkg(p.PkgPath) == fs.Pkg {
				return p.Types
			}
		}
	}
	if fr != nil && fr.Fn.Pkg != nil {
		return fr.Fn.Pkg.Pkg
	}
	return nil
}

// havocLoc: a location named in a modifies clause gets an arbitrary new value.
func (X *Exec) havocLoc(c *SpecCtx, st *State, loc *SExpr) {
	ts := X.E.TS
	for loc.Kind == "paren" {
		loc = loc.Args[0]
	}
	switch loc.Kind {
	case "sel":
		obj := c.eval(loc.Args[0])
		if obj.A != nil && obj.T == nil {
			sT := structOf(obj.A.T)
			for i := 0; sT != nil && i < sT.NumFields(); i++ {
				if sT.Field(i).Name() == loc.Name {
					na := *obj.A
					na.Path = append(append([]PathElem{}, obj.A.Path...), PathElem{Field: i})
					na.T = sT.Field(i).Type()
					X.store(st, &na, X.freshOfType(st, na.T, "mod."+loc.Name))
					return
				}
			}
			c.fail("modifies %s: no such field", loc.Src)
		}
		p, ok := obj.GT.Underlying().(*types.Pointer)
		if !ok {
			c.fail("modifies %s: not a field of a pointer", loc.Src)
		}
		sT := structOf(p.Elem())
		for i := 0; i < sT.NumFields(); i++ {
			if sT.Field(i).Name() == loc.Name {
				n, s := X.E.FieldHeap(p.Elem(), i)
				v := X.freshOfType(st, sT.Field(i).Type(), "mod."+loc.Name)
				X.setHeap(st, n, s, ts.Store(X.heap(st, n, s), obj.T, v))
				return
			}
		}
		c.fail("modifies: no field %s", loc.Name)
	case "unary":
		if loc.Op == "*" {
			obj := c.eval(loc.Args[0])
			if obj.A != nil && obj.T == nil {
				X.store(st, obj.A, X.freshOfType(st, obj.A.T, "mod.deref"))
				return
			}
			p := obj.GT.Underlying().(*types.Pointer)
			if sT := structOf(p.Elem()); sT != nil {
				for i := 0; i < sT.NumFields(); i++ {
					n, s := X.E.FieldHeap(p.Elem(), i)
					v := X.freshOfType(st, sT.Field(i).Type(), "mod."+sT.Field(i).Name())
					X.setHeap(st, n, s, ts.Store(X.heap(st, n, s), obj.T, v))
				}
				return
			}
			n, s := X.E.CellHeap(p.Elem())
			X.setHeap(st, n, s, ts.Store(X.heap(st, n, s), obj.T, X.freshOfType(st, p.Elem(), "mod.deref")))
			return
		}
	case "call":
		switch loc.Name {
		case "elems":
			x := c.eval(loc.Args[0])
			el := sliceElem(x.GT)
			n, s := X.E.ElemHeap(el)
			arr := x.T
			if x.T.Sort == X.E.SliceS {
				arr = ts.Sel(x.T, 0)
			}
			X.setHeap(st, n, s, ts.Store(X.heap(st, n, s), arr, ts.Fresh("mod.elems", s.Elem)))
			return
		case "mapof":
			x := c.eval(loc.Args[0])
			mt := x.GT.Underlying().(*types.Map)
			pn, vn, ln, ps, vs := X.E.MapHeaps(mt)
			X.setHeap(st, pn, ps, ts.Store(X.heap(st, pn, ps), x.T, ts.Fresh("mod.mp", ps.Elem)))
			X.setHeap(st, vn, vs, ts.Store(X.heap(st, vn, vs), x.T, ts.Fresh("mod.mv", vs.Elem)))
			ls := ArraySort(SInt, SInt)
			X.setHeap(st, ln, ls, ts.Store(X.heap(st, ln, ls), x.T, ts.Fresh("mod.ml", SInt)))
			return
		case "allof":
			// allof(T.f): field f of every object of type T
			s := strings.TrimSpace(loc.Args[0].Src)
			i := strings.LastIndex(s, ".")
			T := c.lookupType(s[:i])
			sT := structOf(T)
			for k := 0; k < sT.NumFields(); k++ {
				if sT.Field(k).Name() == s[i+1:] {
					n, srt := X.E.FieldHeap(T, k)
					X.setHeap(st, n, srt, ts.Fresh("mod.all."+s[i+1:], srt))
					return
				}
			}
		case "allelems":
			// allelems(T): the elements of every []T (appends in place write into spare capacity of arrays that
			// cannot all be named)
			T := c.lookupType(exprText(loc.Args[0]))
			n, srt := X.E.ElemHeap(T)
			X.setHeap(st, n, srt, ts.Fresh("mod.allelems", srt))
			return
		case "maxalloc":
			X.setHeap(st, "GM|maxalloc", SInt, ts.Fresh("mod.maxalloc", SInt))
			return
		case "maxmake":
			X.setHeap(st, "GM|maxmake", SInt, ts.Fresh("mod.maxmake", SInt))
			return
		case "boxed":
			// boxed(x): what the pointer inside interface value x points to. Shallow targets (pointer to a basic
			// value or to a slice of basic values) are havoced alone; anything deeper havocs the whole heap.
			x := c.eval(loc.Args[0])
			if x.T.Op == "app" && strings.HasPrefix(x.T.Name, "box|") {
				if pt, ok := X.E.boxTypes[strings.TrimPrefix(x.T.Name, "box|")].(*types.Pointer); ok {
					shallow := false
					switch u := pt.Elem().Underlying().(type) {
					case *types.Basic:
						shallow = true
					case *types.Slice:
						_, shallow = u.Elem().Underlying().(*types.Basic)
					}
					if shallow {
						a := &Addr{Kind: AddrObj, Ref: x.T.Args[0], ObjT: pt.Elem(), T: pt.Elem()}
						X.store(st, a, X.freshOfType(st, pt.Elem(), "mod.boxed"))
						return
					}
				}
			}
			X.havocAll(st, "boxed")
			return
		}
		if gm, ok := X.E.Specs.GhostMaps[loc.Name]; ok {
			name, srt, ps := c.ghostMapSort(gm)
			cur := X.heap(st, name, srt)
			// modifies g(a): the entry at a (all deeper indices) changes
			if len(loc.Args) == 0 {
				X.setHeap(st, name, srt, ts.Fresh("mod."+gm.Name, srt))
				return
			}
			a := c.coerce(c.eval(loc.Args[0]), ps[0])
			X.setHeap(st, name, srt, ts.Store(cur, a, ts.Fresh("mod."+gm.Name, srt.Elem)))
			return
		}
	case "ident":
		if srt, ok := X.ghostTypes[loc.Name]; ok {
			X.setHeap(st, "GH|"+loc.Name, srt, ts.Fresh("mod."+loc.Name, srt))
			return
		}
	}
	c.fail("unsupported modifies location %q", loc.Src)
}

// ---------------------------------------------------------------------------
// inlining

func (X *Exec) inlineCall(fr *Frame, st *State, callee *ssa.Function, bindings []*Val, args []*Val, pos token.Pos) *Val {
	key := X.E.P.Keys[callee]
	X.Inlined[key]++
	nf := X.newFrame(callee, fr)
	nf.Path = fr.Path + "/" + X.pos(pos)
	nf.EntryState = st.Clone()
	for i, p := range callee.Params {
		if i < len(args) {
			nf.Regs[p] = args[i]
			nf.ParamEntry[p.Name()] = args[i]
		}
	}
	for i, fv := range callee.FreeVars {
		if i < len(bindings) {
			nf.Free[fv] = bindings[i]
		}
	}
	X.inlineStack = append(X.inlineStack, callee)
	X.runBody(nf, st.Clone())
	X.inlineStack = X.inlineStack[:len(X.inlineStack)-1]
	// merge return states into st
	var states []*State
	for _, r := range nf.Rets {
		states = append(states, r.St)
	}
	m := X.merge(states)
	res := X.mergeResults(nf, callee)
	*st = *m
	// objects the callee had not published are the caller's business from here on
	var keep []stableRec
	for _, sr := range st.Stable {
		if sr.Unpublished && sr.Alloc != nil && sr.Alloc.Parent() == callee {
			continue
		}
		keep = append(keep, sr)
	}
	st.Stable = keep
	return res
}

func (X *Exec) mergeResults(nf *Frame, callee *ssa.Function) *Val {
	ts := X.E.TS
	nres := callee.Signature.Results().Len()
	if nres == 0 {
		return nil
	}
	var live []*retRec
	for _, r := range nf.Rets {
		if !r.St.Dead {
			live = append(live, r)
		}
	}
	if len(live) == 0 {
		return X.freshVal(nil, tupleOrSingle(callee.Signature.Results()), "noret")
	}
	out := make([]*Val, nres)
	for k := 0; k < nres; k++ {
		T := callee.Signature.Results().At(k).Type()
		var t *Term
		var clo *Closure
		sameClo := true
		for i := len(live) - 1; i >= 0; i-- {
			v := live[i].Vals[k]
			vt := v.T
			if vt == nil {
				vt = X.ptrTerm(live[i].St, v, "returned")
			}
			if t == nil {
				t = vt
				clo = v.Clo
			} else {
				t = ts.Ite(live[i].St.PC, vt, t)
				if v.Clo != clo {
					sameClo = false
				}
			}
		}
		out[k] = &Val{T: t, GT: T}
		if sameClo {
			out[k].Clo = clo
		}
		// a single return of an address stays an address
		if len(live) == 1 && live[0].Vals[k].T == nil && live[0].Vals[k].A != nil {
			out[k] = live[0].Vals[k]
		}
	}
	if nres == 1 {
		return out[0]
	}
	return &Val{Tuple: out, GT: callee.Signature.Results()}
}

func tupleOrSingle(t *types.Tuple) types.Type {
	if t.Len() == 1 {
		return t.At(0).Type()
	}
	return t
}

// ---------------------------------------------------------------------------
// interface method calls

func (X *Exec) execInvoke(fr *Frame, ins ssa.Instruction, cc *ssa.CallCommon, st *State, recv *Val, args []*Val) *Val {
	ts := X.E.TS
	pos := ins.Pos()
	X.oblige(st, "nil", "", "method call on nil interface: "+srcName(cc.Value)+"."+cc.Method.Name(), pos, ts.Not(ts.Eq(recv.T, X.E.IfaceNil())))
	// 0. receiver is a choice between values (merged paths): decide the call per alternative
	if recv.T.Op == "ite" && X.iteDepth < 3 {
		X.iteDepth++
		defer func() { X.iteDepth-- }()
		cnd := recv.T.Args[0]
		s1, s2 := st.Clone(), st.Clone()
		s1.branch(ts, cnd)
		s2.branch(ts, ts.Not(cnd))
		r1 := X.execInvoke(fr, ins, cc, s1, &Val{T: recv.T.Args[1], GT: recv.GT}, args)
		r2 := X.execInvoke(fr, ins, cc, s2, &Val{T: recv.T.Args[2], GT: recv.GT}, args)
		m := X.merge([]*State{s1, s2})
		*st = *m
		return X.iteVals(s1, cnd, r1, r2)
	}
	// 1. dynamic type known from a MakeInterface on this path
	if recv.T.Op == "app" && strings.HasPrefix(recv.T.Name, "box|") {
		if ct := X.concreteTypeOfBox(recv.T.Name); ct != nil {
			ms := X.E.P.Prog.MethodSets.MethodSet(ct)
			if sel := ms.Lookup(cc.Method.Pkg(), cc.Method.Name()); sel != nil {
				if m := X.E.P.Prog.MethodValue(sel); m != nil {
					rv := &Val{T: recv.T.Args[0], GT: ct, Clo: recv.Clo}
					ncc := &ssa.CallCommon{Value: m, Args: nil}
					_ = ncc
					return X.callMethodValue(fr, ins, m, cc, st, append([]*Val{rv}, args...))
				}
			}
		}
	}
	// 1.5 iterator rule for Set.Each(closure) when the enclosing function's contract has `each N invariant` clauses
	if cc.Method.Name() == "Each" && len(args) == 1 && strings.HasPrefix(typeKey(cc.Value.Type()), "github.com/deckarep/golang-set/v2.Set") {
		if r, ok := X.eachRule(fr, ins, cc, st, recv, args[0]); ok {
			return r
		}
	}
	// 2. contract on the interface method
	recvT := cc.Value.Type()
	tn := typeKey(recvT)
	keys := []string{"iface:" + tn + "." + cc.Method.Name()}
	if i := strings.Index(tn, "["); i >= 0 {
		keys = append(keys, "iface:"+tn[:i]+"."+cc.Method.Name()) // any instantiation of a generic interface
	}
	for _, k := range keys {
		if fs := X.E.Specs.Funcs[k]; fs != nil {
			return X.applyContract(fr, st, fs, nil, recv, cc, args, pos)
		}
	}
	X.Uncontracted["invoke "+tn+"."+cc.Method.Name()]++
	X.havocAll(st, "invoke")
	return X.freshResults(st, cc, "invoke")
}

func (X *Exec) concreteTypeOfBox(name string) types.Type {
	k := strings.TrimPrefix(name, "box|")
	return X.E.boxTypes[k]
}

// callMethodValue calls a concrete method found through a known dynamic type.
func (X *Exec) callMethodValue(fr *Frame, ins ssa.Instruction, m *ssa.Function, cc *ssa.CallCommon, st *State, args []*Val) *Val {
	// build a static CallCommon look-alike for signature purposes
	scc := &ssa.CallCommon{Value: m}
	_ = scc
	key := X.E.P.Keys[m]
	inRepo := key != ""
	if !inRepo {
		key = externKey(m)
	}
	if r, ok := X.specialCall(fr, ins, m, key, cc, st, args); ok {
		return r
	}
	var fs *FuncSpec
	if inRepo {
		fs = X.E.Specs.Funcs[key]
	} else {
		fs = X.E.Specs.Funcs["extern:"+key]
	}
	if fs != nil && !fs.Inline {
		return X.applyContractSig(fr, st, fs, m, m.Signature, args, ins.Pos(), cc)
	}
	if inRepo && m.Blocks != nil && X.canInline(m) {
		return X.inlineCall(fr, st, m, nil, args, ins.Pos())
	}
	X.Uncontracted[key]++
	X.havocAll(st, "call")
	return X.freshResults(st, cc, "call")
}

// applyContractSig: like applyContract for a callee called with explicit receiver in args.
func (X *Exec) applyContractSig(fr *Frame, st *State, fs *FuncSpec, callee *ssa.Function, sig *types.Signature, args []*Val, pos token.Pos, cc *ssa.CallCommon) *Val {
	// reuse applyContract through a fake CallCommon carrying the callee (static call shape)
	fake := &ssa.CallCommon{Value: callee}
	return X.applyContract(fr, st, fs, callee, nil, fake, args, pos)
}

func (X *Exec) iteVals(s1 *State, cnd *Term, a, b *Val) *Val {
	ts := X.E.TS
	if a == nil || b == nil {
		if a != nil {
			return a
		}
		return b
	}
	if a.Tuple != nil {
		out := &Val{GT: a.GT}
		for i := range a.Tuple {
			out.Tuple = append(out.Tuple, X.iteVals(s1, cnd, a.Tuple[i], b.Tuple[i]))
		}
		return out
	}
	if s1.Dead {
		return b
	}
	return &Val{T: ts.Ite(cnd, a.T, b.T), GT: a.GT}
}

func mentionsGhost(e *SExpr, fs *FuncSpec) bool {
	if e == nil || len(fs.Ghosts) == 0 {
		return false
	}
	if e.Kind == "ident" {
		for _, g := range fs.Ghosts {
			if g.Name == e.Name {
				return true
			}
		}
	}
	for _, a := range e.Args {
		if mentionsGhost(a, fs) {
			return true
		}
	}
	return false
}

// loopVarsAt: rangeindex / rangelen of the innermost loop that contains the instruction (nil outside loops).
func (X *Exec) loopVarsAt(fr *Frame, st *State, ins ssa.Instruction) map[string]*Val {
	if ins == nil || ins.Block() == nil || ins.Parent() != fr.Fn {
		return nil
	}
	cfg := analyzeCFG(fr.Fn)
	var best *loopInfo
	for _, li := range cfg.headList {
		if li.Body[ins.Block().Index] && (best == nil || len(li.Body) < len(best.Body)) {
			best = li
		}
	}
	if best == nil {
		return nil
	}
	return X.loopVars(fr, best, st)
}

// noLockAcrossCallback: a callback of unknown origin (user handler) may call back into the API: every lock this
// function has taken must have been released again (lock state equals the entry state, `holds` included).
func (X *Exec) noLockAcrossCallback(fr *Frame, st *State, what string, pos token.Pos) {
	ts := X.E.TS
	var names []string
	for n := range st.Heaps {
		if strings.HasPrefix(n, "LK|") {
			names = append(names, n)
		}
	}
	sort.Strings(names)
	ls := ArraySort(SInt, SInt)
	for _, n := range names {
		cur := X.heap(st, n, ls)
		free := ts.ConstArray(ls, ts.IntLit(0))
		if cur == free {
			continue
		}
		X.oblige(st, "lockset", "", fmt.Sprintf("no lock is held across the call of %s (%s)", what, n), pos, ts.Eq(cur, free))
	}
}

// isHandlerType: the public handler types of the API (named func types ...Func / ...Callback declared in the module).
func isHandlerType(t types.Type) bool {
	n, ok := t.(*types.Named)
	if !ok || n.Obj().Pkg() == nil || !strings.HasPrefix(n.Obj().Pkg().Path(), "github.com/karagenc/socket.io-go") {
		return false
	}
	if _, isSig := n.Underlying().(*types.Signature); !isSig {
		return false
	}
	return strings.HasSuffix(n.Obj().Name(), "Func") || strings.HasSuffix(n.Obj().Name(), "Callback")
}

// eachRule: s.Each(f) with a known closure f, specified by `each N invariant I` clauses (visited(x) = x was handed to
// f already). Obligations: I holds with nothing visited; for an arbitrary element x of s not yet visited, running f(x)
// from any state satisfying I re-establishes I with x visited, and f returns false (no early stop). Afterwards I holds
// with exactly the members of s (as they were when Each was called) visited. Everything the callback may touch is
// havoced, so I must carry what is needed.
func (X *Exec) eachRule(fr *Frame, ins ssa.Instruction, cc *ssa.CallCommon, st *State, recv *Val, fv *Val) (*Val, bool) {
	fs := X.specOf(fr)
	if fs == nil {
		return nil, false
	}
	// ordinal of this Each call in the function
	var eachs []ssa.Instruction
	for _, b := range fr.Fn.Blocks {
		for _, in := range b.Instrs {
			if cv, ok := in.(ssa.CallInstruction); ok {
				c := cv.Common()
				if c.IsInvoke() && c.Method.Name() == "Each" {
					eachs = append(eachs, in)
				}
			}
		}
	}
	sort.Slice(eachs, func(a, b int) bool { return eachs[a].Pos() < eachs[b].Pos() })
	ord := -1
	for k, in := range eachs {
		if in == ins {
			ord = k
		}
	}
	ls := fs.Loops[-1-ord]
	if ord < 0 || ls == nil || len(ls.Invariants) == 0 {
		return nil, false
	}
	var clo *Closure
	if fv.Clo != nil {
		clo = fv.Clo
	} else if fv.T != nil {
		clo = st.Clos[fv.T]
	}
	if clo == nil || clo.Fn == nil || clo.Fn.Blocks == nil || len(clo.Fn.Params) != 1 {
		return nil, false
	}
	ts := X.E.TS
	pos := ins.Pos()
	gm := X.E.Specs.GhostMaps["smem"]
	if gm == nil {
		return nil, false
	}
	vsort := ArraySort(SStr, SBool)
	memSort := ArraySort(SIface, vsort)
	memAtEntry := ts.Select(X.heap(st, "GM|smem", memSort), recv.T)
	fnKey := X.E.P.Keys[fr.Fn]
	evalInvs := func(s *State, V *Term) []*Term {
		X.eachVisited = V
		defer func() { X.eachVisited = nil }()
		var out []*Term
		for _, inv := range ls.Invariants {
			out = append(out, X.evalClause(fr, s, inv, nil))
		}
		return out
	}
	// entry: nothing visited
	for i, t := range evalInvs(st, ts.ConstArray(vsort, ts.False())) {
		inv := ls.Invariants[i]
		X.oblige(st, "inv.entry", inv.Label, fmt.Sprintf("each %d of %s invariant #%d holds before the first callback: %s", ord, fnKey, i, inv.Src), pos, t)
	}
	xb := ts.BoundVar("ex", SStr)
	// arbitrary iteration
	h := st.Clone()
	X.havocAll(h, "each")
	V := ts.Fresh("each.visited", vsort)
	h.assume(ts, ts.Forall([]*Term{xb}, ts.Implies(ts.Select(V, xb), ts.Select(memAtEntry, xb)), []*Term{ts.Select(V, xb)}))
	for _, t := range evalInvs(h, V) {
		h.assume(ts, t)
	}
	x := ts.Fresh("each.x", SStr)
	h.assume(ts, ts.And(ts.Select(memAtEntry, x), ts.Not(ts.Select(V, x))))
	if !X.canInline(clo.Fn) {
		return nil, false
	}
	res := X.inlineCall(fr, h, clo.Fn, clo.Bindings, []*Val{{T: x, GT: clo.Fn.Params[0].Type()}}, pos)
	if !h.Dead {
		if res != nil && res.T != nil {
			X.oblige(h, "inv.step", "", fmt.Sprintf("each %d of %s: the callback returns false (no early stop)", ord, fnKey), pos, ts.Not(res.T))
		}
		for i, t := range evalInvs(h, ts.Store(V, x, ts.True())) {
			inv := ls.Invariants[i]
			X.oblige(h, "inv.step", inv.Label, fmt.Sprintf("each %d of %s invariant #%d is preserved by one callback: %s", ord, fnKey, i, inv.Src), pos, t)
		}
	}
	// after the iteration: exactly the members (as they were at the call) have been visited
	X.havocAll(st, "each.exit")
	Vf := ts.Fresh("each.all", vsort)
	st.assume(ts, ts.Forall([]*Term{xb}, ts.Eq(ts.Select(Vf, xb), ts.Select(memAtEntry, xb)), []*Term{ts.Select(Vf, xb)}))
	for _, t := range evalInvs(st, Vf) {
		st.assume(ts, t)
	}
	X.UsedTrusted["iterator rule for mapset Set.Each (calls the callback once for every member, in some order, until it returns true)"]++
	return nil, true
}

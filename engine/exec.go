package main

import (
	"fmt"
	"go/token"
	"go/types"
	"os"
	"regexp"
	"sort"
	"strings"

	"golang.org/x/tools/go/ssa"
)

type Obligation struct {
	Fn      string
	Kind    string // bounds nil pre post inv.entry inv.step panic div callsite mon lockset balance cover typeassert lemma
	Label   string // stable label from the contract clause, or ""
	Name    string // stable obligation name used in expected/known-findings files
	Pos     string
	Desc    string
	Hyp     *Term
	Goal    *Term
	WantSat bool // cover obligations: the query Hyp (without goal negation) must be SAT
	PreHyp  *Term // consistency covers: Hyp may be UNSAT only if PreHyp (the state before the call) already is

	Status      string // proved failed unknown sat(unsat for cover) simplified
	Solver      string
	Secs        float64
	Model       string
	Query       string
	queryCVC    string
	queryPrefer string
	queryQF     string
	Candidate   bool // Model is a candidate counterexample from a weakened query
	Prefer      []*Term
	AuxNames    []string
	AuxVals     []*Term
	Vals        []*Term // terms whose model values are wanted for replay
	ValNames    []string
}

type Frame struct {
	ID     int
	Fn     *ssa.Function
	Regs   map[ssa.Value]*Val
	Cells  map[*ssa.Alloc]*Cell
	Free   map[*ssa.FreeVar]*Val
	Parent *Frame
	Depth  int
	Path   string // call path for loop keys
	Spec   *FuncSpec
	Top    bool
	// entry values of parameters (by name) for old()/ensures
	ParamEntry map[string]*Val
	ParamCells map[string]*Cell
	Rets       []*retRec
	// states in which a call marked `maypanic` panicked (explored after the normal paths)
	PanicStates []*State
	edgePC      map[[2]int]*Term
	EntryState  *State
	callOrd     map[string]int
	Exec        *Exec
}

type retRec struct {
	St   *State
	Vals []*Val
	Pos  token.Pos
}

type Exec struct {
	E              *Env
	Wrap64         bool
	frameAllowed   map[string]*frameAllow
	epochMerge     map[int]*epochMergeRec
	eachVisited    *Term // inside an `each N invariant`: the set of elements already visited
	LockOnly       bool
	curIns         ssa.Instruction
	usableLS       map[string]*LoopSpec
	loopProbeState *State
	ghostGoTypes   map[string]types.Type
	pre            map[string]*Term
	heapSorts      map[string]*Sort
	Obls           []*Obligation
	probe          bool
	cellSeq        int
	frameSeq       int
	TopFn          *ssa.Function
	TopKey         string
	TopSpec        *FuncSpec
	TopFrame       *Frame
	Entry          *State // entry state of the top function (for old)
	LockMode       bool
	// houdini
	cands      map[string][]*Candidate
	candChecks []*candCheck
	// bookkeeping for evidence
	UsedTrusted         map[string]int
	Uncontracted        map[string]int
	Inlined             map[string]int
	Abstracted          []string
	Spawns              []string
	ghostTypes          map[string]*Sort
	inlineStack         []*ssa.Function
	MaxInline           int
	pathCap             bool
	iterSeq             int
	epochHeaps          map[string]*Term
	epochSeq            int
	modCache            map[string]*modSet
	loopEntry           map[string]*State
	scratchDepth        int
	ImmutableGlobals    map[string]bool
	iteDepth            int
	Unroll              int
	SafetyOff           bool
	SafetyBounds        bool
	CallsiteAssumptions map[string]int
	pendingBindings     []*Val
	pendingTypeArgs     []types.Type
	SafetySkipped       int
	heapTrace           map[string]*Sort
}

type Candidate struct {
	Desc  string
	Eval  func(fr *Frame, st *State) *Term
	Alive bool
	// a user invariant whose missing local was replaced by another local of the function: when it survives Houdini
	// it stands in for the original (same label)
	Subst *Clause
	Orig  *Clause
}

type candCheck struct {
	C    *Candidate
	Hyp  *Term
	Goal *Term
	What string
}

func NewExec(E *Env) *Exec {
	return &Exec{E: E, pre: map[string]*Term{}, heapSorts: map[string]*Sort{}, cands: map[string][]*Candidate{},
		epochHeaps: map[string]*Term{}, modCache: map[string]*modSet{}, loopEntry: map[string]*State{},
		ImmutableGlobals: map[string]bool{}, CallsiteAssumptions: map[string]int{}, UsedTrusted: map[string]int{}, Uncontracted: map[string]int{}, Inlined: map[string]int{}, ghostTypes: map[string]*Sort{}, MaxInline: 4}
}

func (X *Exec) pos(p token.Pos) string {
	if !p.IsValid() {
		return ""
	}
	pp := X.E.P.Prog.Fset.Position(p)
	f := pp.Filename
	f = strings.TrimPrefix(f, X.E.P.Dir+"/")
	return fmt.Sprintf("%s:%d", f, pp.Line)
}

func (X *Exec) oblige(st *State, kind, label, desc string, p token.Pos, goal *Term) {
	ts := X.E.TS
	if st.Dead {
		return
	}
	if X.LockOnly && kind != "lockset" {
		st.assume(ts, goal)
		return
	}
	if kind == "pre" && label != "" && X.E.Specs.Funcs != nil && X.libraryLabel(label) {
		// a precondition of an assumed library contract that is checked only in functions that opt in
		// (`opt library <label prefix>`): elsewhere it is assumed, like any unlabelled precondition under `safety off`
		want := ""
		if X.TopSpec != nil {
			want = X.TopSpec.Opts["library"]
		}
		if want == "" || !strings.HasPrefix(label, want) {
			X.SafetySkipped++
			st.assume(ts, goal)
			return
		}
	}
	if X.SafetyBounds && label == "" {
		switch kind {
		case "nil", "typeassert", "pre":
			X.SafetySkipped++
			st.assume(ts, goal)
			return
		}
	}
	if X.SafetyOff && label == "" && kind == "nil" && X.TopSpec != nil && X.TopSpec.Opts["keep"] == "nil" && len(X.inlineStack) == 0 &&
		strings.HasPrefix(desc, "nil dereference: ") {
		// `opt keep nil`: a path/effect contract that still claims its own nil dereferences (functions that take a
		// decoded packet apart: a header field the peer may have left out must be tested before it is used)
	} else if X.SafetyOff && label == "" {
		switch kind {
		case "bounds", "nil", "typeassert", "div", "pre":
			// path/effect contract only: run-time panics of this function are not part of the claim
			X.SafetySkipped++
			st.assume(ts, goal)
			return
		}
	}
	if !X.probe {
		o := &Obligation{Fn: X.TopKey, Kind: kind, Label: label, Pos: X.pos(p), Desc: desc, Hyp: st.PC, Goal: goal}
		if kind == "bounds" && goal.Op == "and" && len(goal.Args) == 2 && goal.Args[0].Op == "<=" && goal.Args[1].Op == "<" && goal.Args[0].Args[1] == goal.Args[1].Args[0] {
			// index obligations: the offending index and the length are worth asking the model for
			o.AuxNames = []string{"idx", "len"}
			o.AuxVals = []*Term{goal.Args[0].Args[1], goal.Args[1].Args[1]}
		}
		X.Obls = append(X.Obls, o)
	}
	// continue under the assumption that it holds
	st.assume(ts, goal)
}

var libLabels map[string]bool

// libraryLabel: the label belongs to a requires clause of a trusted (assumed) contract.
func (X *Exec) libraryLabel(label string) bool {
	if libLabels == nil {
		libLabels = map[string]bool{}
		for _, fs := range X.E.Specs.Funcs {
			if fs.Trusted {
				for _, c := range fs.Requires {
					if c.Label != "" {
						libLabels[c.Label] = true
					}
				}
			}
		}
	}
	return libLabels[label]
}

// ---------------------------------------------------------------------------
// CFG analysis

type cfgInfo struct {
	order    []*ssa.BasicBlock // reverse postorder over forward edges
	back     map[[2]int]bool   // back edges (from, to)
	heads    map[int]*loopInfo
	headList []*loopInfo
}

type loopInfo struct {
	Head    *ssa.BasicBlock
	Ordinal int
	Body    map[int]bool
	Latches []*ssa.BasicBlock
}

var cfgCache = map[*ssa.Function]*cfgInfo{}

func analyzeCFG(fn *ssa.Function) *cfgInfo {
	if c, ok := cfgCache[fn]; ok {
		return c
	}
	c := &cfgInfo{back: map[[2]int]bool{}, heads: map[int]*loopInfo{}}
	state := map[int]int{} // 0 unvisited 1 on stack 2 done
	var post []*ssa.BasicBlock
	var dfs func(b *ssa.BasicBlock)
	dfs = func(b *ssa.BasicBlock) {
		state[b.Index] = 1
		for _, s := range b.Succs {
			switch state[s.Index] {
			case 0:
				dfs(s)
			case 1:
				c.back[[2]int{b.Index, s.Index}] = true
			}
		}
		state[b.Index] = 2
		post = append(post, b)
	}
	if len(fn.Blocks) > 0 {
		dfs(fn.Blocks[0])
	}
	for i := len(post) - 1; i >= 0; i-- {
		c.order = append(c.order, post[i])
	}
	// natural loops
	for e := range c.back {
		from, to := e[0], e[1]
		li := c.heads[to]
		if li == nil {
			li = &loopInfo{Head: fn.Blocks[to], Body: map[int]bool{to: true}}
			c.heads[to] = li
		}
		li.Latches = append(li.Latches, fn.Blocks[from])
		// blocks that reach `from` without passing through head
		var stack []*ssa.BasicBlock
		if !li.Body[from] {
			li.Body[from] = true
			stack = append(stack, fn.Blocks[from])
		}
		for len(stack) > 0 {
			b := stack[len(stack)-1]
			stack = stack[:len(stack)-1]
			for _, p := range b.Preds {
				if !li.Body[p.Index] && state[p.Index] == 2 {
					li.Body[p.Index] = true
					stack = append(stack, p)
				}
			}
		}
	}
	var idx []int
	for h := range c.heads {
		idx = append(idx, h)
	}
	sort.Ints(idx)
	for n, h := range idx {
		c.heads[h].Ordinal = n
		c.headList = append(c.headList, c.heads[h])
	}
	cfgCache[fn] = c
	return c
}

// ---------------------------------------------------------------------------
// running a function body

func (X *Exec) newFrame(fn *ssa.Function, parent *Frame) *Frame {
	X.frameSeq++
	fr := &Frame{ID: X.frameSeq, Fn: fn, Regs: map[ssa.Value]*Val{}, Cells: map[*ssa.Alloc]*Cell{}, Free: map[*ssa.FreeVar]*Val{}, Parent: parent,
		ParamEntry: map[string]*Val{}, ParamCells: map[string]*Cell{}, edgePC: map[[2]int]*Term{}, callOrd: map[string]int{}, Exec: X}
	if parent != nil {
		fr.Depth = parent.Depth + 1
	}
	return fr
}

// runBody executes fr.Fn from state st with parameters already bound in fr.Regs;
// return states are collected in fr.Rets.
func (X *Exec) runBody(fr *Frame, st *State) {
	cfg := analyzeCFG(fr.Fn)
	X.runRegion(fr, cfg, nil, fr.Fn.Blocks[0], st, nil)
	// panic paths: the deferred calls run with recover() returning the panic value; when one of them recovered,
	// control resumes in the Recover block (which returns the named results); otherwise the panic leaves the function
	if len(fr.PanicStates) > 0 {
		ts := X.E.TS
		ps := X.merge(fr.PanicStates)
		fr.PanicStates = nil
		if ps.Dead {
			return
		}
		X.execRunDefers(fr, nil, ps)
		if fr.Fn.Recover == nil {
			return
		}
		ps.branch(ts, ts.Eq(X.heap(ps, "GH|~panicval", SIface), X.E.IfaceNil()))
		X.execBlock(fr, fr.Fn.Recover, ps, func(succ *ssa.BasicBlock, s *State) {
			panic("Recover block with successors")
		})
	}
}

type edgeState struct {
	From, To int
	St       *State
}

// runRegion executes the blocks of `region` (nil = whole function) in reverse postorder starting at
// `start` with state st. Edges leaving the region are returned; back edges to `self` are returned as latches.
// Inner loops are executed recursively (havoc + invariant), their exit edges fed back into this scheduler.
func (X *Exec) runRegion(fr *Frame, cfg *cfgInfo, region map[int]bool, start *ssa.BasicBlock, st *State, self *loopInfo) (exits []edgeState, latches []*State) {
	fn := fr.Fn
	in := map[int][]*State{}
	in[start.Index] = []*State{st}
	done := map[int]bool{}
	var route func(from int, succ *ssa.BasicBlock, s *State)
	route = func(from int, succ *ssa.BasicBlock, s *State) {
		fr.edgePC[[2]int{from, succ.Index}] = s.PC
		if self != nil && succ == self.Head && cfg.back[[2]int{from, succ.Index}] {
			latches = append(latches, s)
			return
		}
		if region != nil && !region[succ.Index] {
			exits = append(exits, edgeState{from, succ.Index, s})
			return
		}
		in[succ.Index] = append(in[succ.Index], s)
	}
	for _, b := range cfg.order {
		if region != nil && !region[b.Index] {
			continue
		}
		if done[b.Index] || (fn.Recover != nil && b == fn.Recover) {
			continue
		}
		if len(in[b.Index]) == 0 {
			continue
		}
		cur := X.merge(in[b.Index])
		if cur.Dead {
			continue
		}
		if li := cfg.heads[b.Index]; li != nil && li != self && X.Unroll > 0 {
			// unrolling mode (counterexample search): no invariants, no havoc, at most Unroll iterations
			st := cur
			for it := 0; it <= X.Unroll && !st.Dead; it++ {
				ex, la := X.runRegion(fr, cfg, li.Body, li.Head, st, li)
				for _, e := range ex {
					route(e.From, fn.Blocks[e.To], e.St)
				}
				st = X.merge(la)
			}
			for k := range li.Body {
				done[k] = true
			}
			continue
		}
		if li := cfg.heads[b.Index]; li != nil && li != self {
			// inner loop: handled as a unit
			h := X.enterLoop(fr, li, cur)
			ex, la := X.runRegion(fr, cfg, li.Body, li.Head, h, li)
			for _, l := range la {
				X.loopStep(fr, li, l)
			}
			for k := range li.Body {
				done[k] = true
			}
			for _, e := range ex {
				route(e.From, fn.Blocks[e.To], e.St)
			}
			continue
		}
		bb := b
		X.execBlock(fr, b, cur, func(succ *ssa.BasicBlock, s *State) { route(bb.Index, succ, s) })
	}
	return
}

// loopVars: names that mean something relative to one loop: `rangeindex` is the hidden index of THIS range loop.
func (X *Exec) loopVars(fr *Frame, li *loopInfo, st *State) map[string]*Val {
	// range over a map: visited(k) = key k has been produced by this loop's iterator
	for _, ins := range li.Head.Instrs {
		if nx, ok := ins.(*ssa.Next); ok {
			if rg, ok := nx.Iter.(*ssa.Range); ok {
				if mt, ok := rg.X.Type().Underlying().(*types.Map); ok {
					name := fmt.Sprintf("IT|%s|%d", X.pos(rg.Pos()), 0)
					srt := ArraySort(X.E.SortOf(mt.Key()), SBool)
					return map[string]*Val{"visited~": {T: X.heap(st, name, srt)}}
				}
			}
		}
	}
	for _, ins := range li.Head.Instrs {
		if s, ok := ins.(*ssa.Store); ok {
			if a, ok := s.Addr.(*ssa.Alloc); ok && a.Comment == "rangeindex" {
				if c := fr.Cells[a]; c != nil {
					if t, ok := st.Cells[c]; ok {
						out := map[string]*Val{"rangeindex": {T: t, GT: c.Type}}
						// `rangelen`: the length the range loop runs up to (evaluated once, before the loop)
						for _, ins2 := range li.Head.Instrs {
							if b, ok := ins2.(*ssa.BinOp); ok && b.Op == token.LSS {
								if v, ok := fr.Regs[b.Y]; ok && v.T != nil {
									out["rangelen"] = v
								}
							}
						}
						return out
					}
				}
			}
		}
	}
	return nil
}

func (X *Exec) loopKey(fr *Frame, li *loopInfo) string {
	return fmt.Sprintf("%s|%s#%d", fr.Path, X.E.P.Keys[fr.Fn], li.Head.Index)
}

func (X *Exec) loopSpecFor(fr *Frame, li *loopInfo) *LoopSpec {
	key := X.E.P.Keys[fr.Fn]
	if fs := X.E.Specs.Funcs[key]; fs != nil {
		if ls := fs.Loops[li.Ordinal]; ls != nil {
			return X.usableLoopSpec(fr, li, ls)
		}
	}
	return &LoopSpec{}
}

// usableLoopSpec drops invariants that name a local the code no longer has (a refactoring): the obligations that
// depended on them then fail under their own names instead of the whole function failing as an engine error.
func (X *Exec) usableLoopSpec(fr *Frame, li *loopInfo, ls *LoopSpec) *LoopSpec {
	k := fmt.Sprintf("%d|%p", fr.ID, ls)
	if u, ok := X.usableLS[k]; ok {
		return u
	}
	out := *ls
	out.Invariants = nil
	st := X.loopProbeState
	for _, inv := range ls.Invariants {
		ok := true
		if st != nil {
			func() {
				defer func() {
					if r := recover(); r != nil {
						if se, isSE := r.(specErr); isSE && strings.Contains(se.msg, "unknown identifier") {
							ok = false
							if m := regexp.MustCompile(`unknown identifier "([^"]+)"`).FindStringSubmatch(se.msg); m != nil {
								out.Dropped = append(out.Dropped, droppedInv{Clause: inv, Name: m[1]})
							}
							X.E.warn("%s: loop %d invariant dropped (%s): %s", X.E.P.Keys[fr.Fn], li.Ordinal, se.msg, inv.Src)
							return
						}
						panic(r)
					}
				}()
				X.evalClause(fr, st.Clone(), inv, X.loopVars(fr, li, st))
			}()
		}
		if ok {
			out.Invariants = append(out.Invariants, inv)
		}
	}
	if st != nil {
		if X.usableLS == nil {
			X.usableLS = map[string]*LoopSpec{}
		}
		X.usableLS[k] = &out
	}
	return &out
}

// enterLoop: assert invariants on the entry state, havoc what the loop modifies, assume invariants.
func (X *Exec) enterLoop(fr *Frame, li *loopInfo, st *State) *State {
	ts := X.E.TS
	X.loopProbeState = st
	ls := X.loopSpecFor(fr, li)
	X.loopProbeState = nil
	key := X.loopKey(fr, li)
	fnKey := X.E.P.Keys[fr.Fn]

	// user invariants on entry
	for i, inv := range ls.Invariants {
		t := X.evalClause(fr, st, inv, X.loopVars(fr, li, st))
		X.oblige(st, "inv.entry", inv.Label, fmt.Sprintf("loop %d of %s invariant #%d holds on entry: %s", li.Ordinal, fnKey, i, inv.Src), li.Head.Instrs[0].Pos(), t)
	}
	X.loopEntry[key] = st
	// houdini candidates
	if _, ok := X.cands[key]; !ok && !ls.NoHoudini {
		X.cands[key] = X.genCandidates(fr, li, st)
	}
	if !X.probe {
		for i, c := range X.substitutes(key) {
			t := c.Eval(fr, st)
			X.oblige(st, "inv.entry", c.Orig.Label, fmt.Sprintf("loop %d of %s invariant (local renamed, #%d) holds on entry: %s", li.Ordinal, fnKey, i, c.Subst.Src), li.Head.Instrs[0].Pos(), t)
		}
	}
	if X.probe {
		for _, c := range X.cands[key] {
			if c.Alive {
				X.candChecks = append(X.candChecks, &candCheck{C: c, Hyp: st.PC, Goal: c.Eval(fr, st), What: "entry"})
			}
		}
	}

	ms := X.modifiedIn(fr, li, st)
	X.loopEntry[key] = st
	h := st.Clone()
	X.havocMod(fr, h, ms, fmt.Sprintf("L%d", li.Ordinal))
	for _, inv := range ls.Invariants {
		h.assume(ts, X.evalClause(fr, h, inv, X.loopVars(fr, li, h)))
	}
	for _, c := range X.cands[key] {
		if c.Alive {
			h.assume(ts, c.Eval(fr, h))
		}
	}
	return h
}

func (X *Exec) loopStep(fr *Frame, li *loopInfo, st *State) {
	if st.Dead {
		return
	}
	ls := X.loopSpecFor(fr, li)
	key := X.loopKey(fr, li)
	fnKey := X.E.P.Keys[fr.Fn]
	if X.probe {
		for _, c := range X.cands[key] {
			if c.Alive {
				X.candChecks = append(X.candChecks, &candCheck{C: c, Hyp: st.PC, Goal: c.Eval(fr, st), What: "step"})
			}
		}
	}
	if !X.probe {
		for i, c := range X.substitutes(key) {
			X.oblige(st, "inv.step", c.Orig.Label, fmt.Sprintf("loop %d of %s invariant (local renamed, #%d) is preserved: %s", li.Ordinal, fnKey, i, c.Subst.Src), li.Head.Instrs[0].Pos(), c.Eval(fr, st))
		}
	}
	for i, inv := range ls.Invariants {
		t := X.evalClause(fr, st, inv, X.loopVars(fr, li, st))
		X.oblige(st, "inv.step", inv.Label, fmt.Sprintf("loop %d of %s invariant #%d is preserved: %s", li.Ordinal, fnKey, i, inv.Src), li.Head.Instrs[0].Pos(), t)
	}
}

// genCandidates: cheap Houdini templates over integer cells modified in the loop.
func (X *Exec) genCandidates(fr *Frame, li *loopInfo, entry *State) []*Candidate {
	ts := X.E.TS
	var out []*Candidate
	out = append(out, X.renameCandidates(fr, li, entry)...)
	ms := X.modifiedIn(fr, li, entry)
	isIntCell := func(a *ssa.Alloc) bool {
		_, _, ok := intRange(a.Type().(*types.Pointer).Elem())
		return ok
	}
	var allocs []*ssa.Alloc
	for a := range ms.cells {
		if fr.Cells[a] != nil && isIntCell(a) {
			allocs = append(allocs, a)
		}
	}
	sort.Slice(allocs, func(i, j int) bool {
		return allocs[i].Pos() < allocs[j].Pos() || (allocs[i].Pos() == allocs[j].Pos() && allocs[i].Name() < allocs[j].Name())
	})
	cellVal := func(a *ssa.Alloc) func(fr *Frame, st *State) *Term {
		return func(fr *Frame, st *State) *Term {
			c := fr.Cells[a]
			if c == nil {
				return nil
			}
			return st.Cells[c]
		}
	}
	for _, a := range allocs {
		a := a
		cv := cellVal(a)
		init := entry.Cells[fr.Cells[a]]
		if init != nil && (init.Op == "int" || init.size <= 12) {
			k0 := init
			kd := "its value at loop entry"
			if k0.Op == "int" {
				kd = k0.Int.String()
			}
			lkey := X.loopKey(fr, li)
			out = append(out, &Candidate{Desc: fmt.Sprintf("%s >= %s", a.Comment, kd), Alive: true, Eval: func(fr *Frame, st *State) *Term {
				v := cv(fr, st)
				if v == nil {
					return ts.True()
				}
				k := k0
				if k0.Op != "int" {
					// the entry value is a term of the current run
					le := fr.Exec.loopEntry[lkey]
					if le == nil || fr.Cells[a] == nil || le.Cells[fr.Cells[a]] == nil {
						return ts.True()
					}
					k = le.Cells[fr.Cells[a]]
				}
				return ts.Ge(v, k)
			}})
		}
	}
	// slices held in cells the loop does not assign: "the backing array is what it was at loop entry"
	// (element heaps are havoced as a whole; this recovers the arrays the loop does not write)
	{
		lkey := X.loopKey(fr, li)
		var sl []*ssa.Alloc
		for a, c := range fr.Cells {
			if ms.cells[a] || c == nil {
				continue
			}
			if _, ok := c.Type.Underlying().(*types.Slice); ok {
				if _, in := entry.Cells[c]; in {
					sl = append(sl, a)
				}
			}
		}
		sort.Slice(sl, func(i, j int) bool {
			return sl[i].Pos() < sl[j].Pos() || (sl[i].Pos() == sl[j].Pos() && sl[i].Name() < sl[j].Name())
		})
		for _, a := range sl {
			a := a
			el := fr.Cells[a].Type.Underlying().(*types.Slice).Elem()
			hn, hs := X.E.ElemHeap(el)
			if _, mod := ms.heaps[hn]; !mod && !ms.all {
				continue
			}
			out = append(out, &Candidate{Desc: "elements of " + a.Comment + " unchanged", Alive: true, Eval: func(fr *Frame, st *State) *Term {
				c := fr.Cells[a]
				le := fr.Exec.loopEntry[lkey]
				if c == nil || le == nil || st.Cells[c] == nil {
					return ts.True()
				}
				arr := ts.Sel(st.Cells[c], 0)
				return ts.Eq(ts.Select(fr.Exec.heap(st, hn, hs), arr), ts.Select(fr.Exec.heap(le, hn, hs), arr))
			}})
		}
	}
	// lock state: "at the loop head every lock is held exactly as at loop entry" (a body that locks and unlocks)
	{
		lkey := X.loopKey(fr, li)
		var lks []string
		for hn := range ms.heaps {
			if strings.HasPrefix(hn, "LK|") {
				lks = append(lks, hn)
			}
		}
		sort.Strings(lks)
		if os.Getenv("GOVC_DBG") != "" {
			fmt.Fprintf(os.Stderr, "genCandidates %s: lock heaps in modset: %v (all=%v, %d heaps)\n", lkey, lks, ms.all, len(ms.heaps))
		}
		for _, hn := range lks {
			hn := hn
			out = append(out, &Candidate{Desc: "lock state " + hn + " as at loop entry", Alive: true, Eval: func(fr *Frame, st *State) *Term {
				le := fr.Exec.loopEntry[lkey]
				if le == nil {
					return ts.True()
				}
				srt := ArraySort(SInt, SInt)
				return ts.Eq(fr.Exec.heap(st, hn, srt), fr.Exec.heap(le, hn, srt))
			}})
		}
	}
	if X.LockOnly {
		// lock sweep: only the lock-state candidates matter (and the cheap cell bounds above)
		return out
	}
	// frame: "outside the modifies list, what existed at function entry is as it was at function entry"
	if X.frameActive() && fr == X.TopFrame {
		var hs []string
		for hn := range ms.heaps {
			hs = append(hs, hn)
		}
		if ms.all {
			for hn := range X.heapSorts {
				if _, in := ms.heaps[hn]; !in {
					hs = append(hs, hn)
				}
			}
		}
		sort.Strings(hs)
		for _, hn := range hs {
			hn := hn
			if !frameHeapName(hn) {
				continue
			}
			out = append(out, &Candidate{Desc: "frame of " + hn + " as at function entry", Alive: true, Eval: func(fr *Frame, st *State) *Term {
				g := fr.Exec.frameGoal(st, hn)
				if g == nil {
					return ts.True()
				}
				return g
			}})
		}
	}
	// pairs of modified integer cells: a <= b, a <= b+1
	if len(allocs) <= 6 {
		for _, a := range allocs {
			for _, b := range allocs {
				if a == b {
					continue
				}
				a, b := a, b
				ca, cb := cellVal(a), cellVal(b)
				for _, off := range []int64{0, 1} {
					off := off
					out = append(out, &Candidate{Desc: fmt.Sprintf("%s <= %s+%d", a.Comment, b.Comment, off), Alive: true, Eval: func(fr *Frame, st *State) *Term {
						x, y := ca(fr, st), cb(fr, st)
						if x == nil || y == nil {
							return ts.True()
						}
						return ts.Le(x, ts.Add(y, ts.IntLit(off)))
					}})
				}
			}
		}
	}
	// comparisons inside the loop between a value derived from a modified int cell and another value
	type bound struct {
		a    *ssa.Alloc
		eval func(fr *Frame, st *State) *Term
		desc string
	}
	var bounds []bound
	seen := map[string]bool{}
	var derive func(v ssa.Value, depth int) *ssa.Alloc
	derive = func(v ssa.Value, depth int) *ssa.Alloc {
		if depth > 3 {
			return nil
		}
		switch x := v.(type) {
		case *ssa.UnOp:
			if x.Op == token.MUL {
				if a, ok := x.X.(*ssa.Alloc); ok && ms.cells[a] && isIntCell(a) {
					return a
				}
			}
		case *ssa.BinOp:
			if x.Op == token.ADD || x.Op == token.SUB {
				if _, ok := x.Y.(*ssa.Const); ok {
					return derive(x.X, depth+1)
				}
			}
		}
		return nil
	}
	// other side: evaluable as a function of the state
	var other func(v ssa.Value, depth int) (func(fr *Frame, st *State) *Term, string)
	other = func(v ssa.Value, depth int) (func(fr *Frame, st *State) *Term, string) {
		if depth > 3 {
			return nil, ""
		}
		switch x := v.(type) {
		case *ssa.Const:
			if x.Value != nil {
				if t := X.constTerm(x); t != nil && t.T != nil && t.T.Sort == SInt {
					return func(*Frame, *State) *Term { return t.T }, x.Value.String()
				}
			}
		case *ssa.UnOp:
			if x.Op == token.MUL {
				if a, ok := x.X.(*ssa.Alloc); ok && !a.Heap {
					if _, _, ok := intRange(a.Type().(*types.Pointer).Elem()); ok {
						return cellVal(a), a.Comment
					}
				}
			}
		case *ssa.Call:
			if b, ok := x.Call.Value.(*ssa.Builtin); ok && b.Name() == "len" && len(x.Call.Args) == 1 {
				if u, ok := x.Call.Args[0].(*ssa.UnOp); ok && u.Op == token.MUL {
					if a, ok := u.X.(*ssa.Alloc); ok && !a.Heap {
						if _, ok := a.Type().(*types.Pointer).Elem().Underlying().(*types.Slice); ok {
							return func(fr *Frame, st *State) *Term {
								c := fr.Cells[a]
								if c == nil || st.Cells[c] == nil {
									return nil
								}
								return ts.Sel(st.Cells[c], 2)
							}, "len(" + a.Comment + ")"
						}
					}
				}
			}
		}
		// a value defined outside the loop: its register value is fixed
		if ins, ok := v.(ssa.Instruction); ok && ins.Block() != nil && !li.Body[ins.Block().Index] {
			return func(fr *Frame, st *State) *Term {
				if r := fr.Regs[v]; r != nil && r.T != nil && r.T.Sort == SInt {
					return r.T
				}
				return nil
			}, v.Name()
		}
		return nil, ""
	}
	for bi := range li.Body {
		b := fr.Fn.Blocks[bi]
		for _, ins := range b.Instrs {
			bo, ok := ins.(*ssa.BinOp)
			if !ok {
				continue
			}
			switch bo.Op {
			case token.LSS, token.LEQ, token.GTR, token.GEQ, token.EQL, token.NEQ:
			default:
				continue
			}
			for _, pair := range [][2]ssa.Value{{bo.X, bo.Y}, {bo.Y, bo.X}} {
				a := derive(pair[0], 0)
				if a == nil {
					continue
				}
				ev, d := other(pair[1], 0)
				if ev == nil {
					continue
				}
				k := a.Comment + "|" + d + "|" + fmt.Sprint(a.Pos())
				if seen[k] {
					continue
				}
				seen[k] = true
				bounds = append(bounds, bound{a, ev, d})
			}
		}
	}
	for _, bd := range bounds {
		bd := bd
		cv := cellVal(bd.a)
		mk := func(op string, f func(x, y *Term) *Term) {
			out = append(out, &Candidate{Desc: fmt.Sprintf("%s %s %s", bd.a.Comment, op, bd.desc), Alive: true, Eval: func(fr *Frame, st *State) *Term {
				x, y := cv(fr, st), bd.eval(fr, st)
				if x == nil || y == nil {
					return ts.True()
				}
				return f(x, y)
			}})
		}
		mk("<", ts.Lt)
		mk("<=", ts.Le)
		mk(">=", ts.Ge)
	}
	return out
}

// ---------------------------------------------------------------------------

func (X *Exec) execBlock(fr *Frame, b *ssa.BasicBlock, st *State, push func(succ *ssa.BasicBlock, s *State)) {
	ts := X.E.TS
	for _, ins := range b.Instrs {
		if st.Dead {
			return
		}
		switch i := ins.(type) {
		case *ssa.Jump:
			push(b.Succs[0], st)
			return
		case *ssa.If:
			c := X.val(fr, i.Cond).T
			s1 := st.Clone()
			s1.branch(ts, c)
			s2 := st
			s2.branch(ts, ts.Not(c))
			push(b.Succs[0], s1)
			push(b.Succs[1], s2)
			return
		case *ssa.Return:
			var vals []*Val
			for _, r := range i.Results {
				vals = append(vals, X.val(fr, r))
			}
			fr.Rets = append(fr.Rets, &retRec{St: st, Vals: vals, Pos: i.Pos()})
			return
		case *ssa.Panic:
			X.execPanic(fr, i, st)
			return
		default:
			X.execInstr(fr, ins, st)
		}
	}
}

func (X *Exec) execPanic(fr *Frame, i *ssa.Panic, st *State) {
	ts := X.E.TS
	goal := ts.False()
	// panics_if clauses of the top-level contract make an explicit panic acceptable
	if X.TopSpec != nil && len(X.TopSpec.PanicsIf) > 0 {
		var ds []*Term
		for _, c := range X.TopSpec.PanicsIf {
			ds = append(ds, X.evalClauseTop(st, c))
		}
		goal = ts.Or(ds...)
	}
	X.oblige(st, "panic", "", "explicit panic is unreachable: "+valueText(i.X), i.Pos(), goal)
	st.Dead = true
	st.PC = ts.False()
}

func valueText(v ssa.Value) string {
	if c, ok := v.(*ssa.MakeInterface); ok {
		return valueText(c.X)
	}
	s := v.String()
	if len(s) > 80 {
		s = s[:80]
	}
	return s
}

// substitutes: per dropped user invariant of this loop, the first renamed variant that survived Houdini.
func (X *Exec) substitutes(key string) []*Candidate {
	var out []*Candidate
	seen := map[*Clause]bool{}
	for _, c := range X.cands[key] {
		if c.Subst != nil && c.Alive && !seen[c.Orig] {
			seen[c.Orig] = true
			out = append(out, c)
		}
	}
	return out
}

// renameCandidates: a user invariant that names a local the function no longer has is re-tried with every other
// named local of the function in that role; the variants are Houdini candidates (kept only if they hold on entry and
// are preserved), so a renamed local does not turn into an alarm and nothing unproved is assumed.
func (X *Exec) renameCandidates(fr *Frame, li *loopInfo, entry *State) []*Candidate {
	key := X.E.P.Keys[fr.Fn]
	fs := X.E.Specs.Funcs[key]
	if fs == nil || fs.Loops[li.Ordinal] == nil {
		return nil
	}
	X.loopProbeState = entry
	ls := X.usableLoopSpec(fr, li, fs.Loops[li.Ordinal])
	X.loopProbeState = nil
	if len(ls.Dropped) == 0 {
		return nil
	}
	var names []string
	seen := map[string]bool{}
	add := func(n string) {
		if n != "" && !seen[n] && !strings.HasPrefix(n, "range") && !strings.Contains(n, "$") && !strings.Contains(n, ".") {
			seen[n] = true
			names = append(names, n)
		}
	}
	for a := range fr.Cells {
		add(a.Comment)
	}
	for v := range fr.Regs {
		if a, ok := v.(*ssa.Alloc); ok && a.Heap {
			add(a.Comment)
		}
	}
	sort.Strings(names)
	var out []*Candidate
	for _, d := range ls.Dropped {
		for _, alt := range names {
			if alt == d.Name {
				continue
			}
			cl := *d.Clause
			cl.Expr = renameIdent(d.Clause.Expr, d.Name, alt)
			cl.Src = d.Clause.Src + "   [with " + d.Name + " := " + alt + "]"
			cc := &cl
			ok := true
			func() {
				defer func() {
					if r := recover(); r != nil {
						ok = false // a local of another type in that role does not fit
					}
				}()
				X.evalClause(fr, entry.Clone(), cc, X.loopVars(fr, li, entry))
			}()
			if !ok {
				continue
			}
			out = append(out, &Candidate{Desc: "renamed local: " + cl.Src, Alive: true, Subst: cc, Orig: d.Clause, Eval: func(fr *Frame, st *State) *Term {
				var t *Term
				func() {
					defer func() {
						if r := recover(); r != nil {
							t = nil
						}
					}()
					t = fr.Exec.evalClause(fr, st, cc, fr.Exec.loopVars(fr, li, st))
				}()
				if t == nil {
					return fr.Exec.E.TS.False()
				}
				return t
			}})
		}
	}
	return out
}

package main

import (
	"os"
	"sort"
	"fmt"
	"go/constant"
	"go/token"
	"go/types"
	"strings"

	"golang.org/x/tools/go/ssa"
)

type SpecCtx struct {
	gmOld   bool // inside was(...): the ghost map itself is read from the old state
	X       *Exec
	St, Old *State
	Vars    map[string]*Val // bindings valid in the current state
	OldVars map[string]*Val // bindings inside old(...): entry values
	Bound   map[string]*Val
	Pkg     *types.Package
	Fr      *Frame // for named locals (loop invariants); nil in call-site contract application
	InOld   bool
	What    string
	Pre     *State // state before the call (call-site assume clauses)
	Snap    *State // state saved by a `callsite ... snapshot` clause
	TypeEnv map[string]types.Type // type parameters of the generic function under verification
	FreeBind map[string]*Val // captured variables of a closure whose contract is applied at a call site
}

type specErr struct{ msg string }

func (c *SpecCtx) fail(format string, a ...any) {
	panic(specErr{fmt.Sprintf(format, a...) + " [in " + c.What + "]"})
}

func (c *SpecCtx) state() *State {
	if c.InOld && c.Old != nil {
		return c.Old
	}
	return c.St
}

func (c *SpecCtx) sub() *SpecCtx {
	n := *c
	n.Bound = map[string]*Val{}
	for k, v := range c.Bound {
		n.Bound[k] = v
	}
	return &n
}

// EvalBool evaluates a clause to a Bool term.
func (c *SpecCtx) EvalBool(e *SExpr) *Term {
	v := c.eval(e)
	if v.T == nil || v.T.Sort != SBool {
		c.fail("expression %q is not boolean", e.Src)
	}
	return v.T
}

func (c *SpecCtx) lookupType(name string) types.Type {
	name = strings.TrimSpace(name)
	switch name {
	case "int":
		return types.Typ[types.UntypedInt] // mathematical integer
	case "bool":
		return types.Typ[types.Bool]
	case "string":
		return types.Typ[types.String]
	case "byte":
		return types.Typ[types.Uint8]
	case "any":
		return types.NewInterfaceType(nil, nil)
	case "error":
		return types.Universe.Lookup("error").Type()
	}
	if strings.HasPrefix(name, "*") {
		return types.NewPointer(c.lookupType(name[1:]))
	}
	if strings.HasPrefix(name, "[]") {
		return types.NewSlice(c.lookupType(name[2:]))
	}
	for _, b := range types.Typ {
		if b.Name() == name {
			return b
		}
	}
	if t, ok := c.TypeEnv[name]; ok {
		return t
	}
	pkg := c.Pkg
	if i := strings.Index(name, "."); i >= 0 {
		pn, tn := name[:i], name[i+1:]
		var found *types.Package
		if pkg != nil {
			for _, imp := range pkg.Imports() {
				if imp.Name() == pn || shortPkg(imp.Path()) == pn {
					found = imp
				}
			}
		}
		if found == nil {
			for _, p := range c.X.E.P.Pkgs {
				if shortPkg(p.PkgPath) == pn || p.Name == pn {
					found = p.Types
				}
			}
		}
		if found == nil {
			// any loaded dependency by package name
			for _, p := range c.X.E.P.Prog.AllPackages() {
				if p.Pkg.Name() == pn || p.Pkg.Path() == pn {
					found = p.Pkg
					break
				}
			}
		}
		if found == nil {
			c.fail("unknown package %q in type %q", pn, name)
		}
		pkg, name = found, tn
	}
	if pkg == nil {
		c.fail("type %q needs a package context", name)
	}
	obj := pkg.Scope().Lookup(name)
	if tn, ok := obj.(*types.TypeName); ok {
		return tn.Type()
	}
	c.fail("unknown type %q in package %s", name, pkg.Path())
	return nil
}

// evalGhost: the value of a ghost initialiser / update expression, with `nil` taken at the ghost's sort.
func (c *SpecCtx) evalGhost(e *SExpr, srt *Sort) *Term {
	if isNilExpr(e) {
		switch {
		case srt == SIface:
			return c.X.E.IfaceNil()
		case srt == SInt:
			return c.X.E.TS.IntLit(0)
		case srt == c.X.E.SliceS:
			ts := c.X.E.TS
			z := ts.IntLit(0)
			return ts.Ctor(c.X.E.SliceS, z, z, z, z)
		}
	}
	return c.eval(e).T
}

func isNilExpr(e *SExpr) bool {
	for e.Kind == "paren" {
		e = e.Args[0]
	}
	return e.Kind == "nil"
}

func (c *SpecCtx) eval(e *SExpr) *Val {
	X := c.X
	ts := X.E.TS
	switch e.Kind {
	case "paren":
		return c.eval(e.Args[0])
	case "int":
		return &Val{T: ts.BigLit(e.Int), GT: types.Typ[types.UntypedInt]}
	case "bool":
		return &Val{T: ts.Bool(e.Name == "true"), GT: types.Typ[types.Bool]}
	case "str":
		return &Val{T: X.E.StrLit(e.Str), GT: types.Typ[types.String]}
	case "nil":
		return &Val{T: ts.IntLit(0), GT: types.Typ[types.UntypedNil]}
	case "ident":
		return c.ident(e.Name)
	case "unary":
		switch e.Op {
		case "!":
			return &Val{T: ts.Not(c.EvalBool(e.Args[0])), GT: types.Typ[types.Bool]}
		case "-":
			v := c.eval(e.Args[0])
			return &Val{T: ts.Neg(v.T), GT: v.GT}
		case "*":
			v := c.eval(e.Args[0])
			return c.derefVal(v)
		}
		c.fail("unsupported unary %s", e.Op)
	case "binary":
		return c.binary(e)
	case "cond":
		cnd := c.EvalBool(e.Args[0])
		a, b := c.eval(e.Args[1]), c.eval(e.Args[2])
		return &Val{T: ts.Ite(cnd, a.T, b.T), GT: a.GT}
	case "sel":
		// package-qualified constant?
		if e.Args[0].Kind == "ident" {
			if v := c.qualified(e.Args[0].Name, e.Name); v != nil {
				return v
			}
		}
		return c.selectField(c.eval(e.Args[0]), e.Name)
	case "index":
		return c.index(c.eval(e.Args[0]), c.eval(e.Args[1]))
	case "slice":
		return c.sliceExpr(e)
	case "call":
		return c.call(e)
	case "quant":
		sc := c.sub()
		var bound []*Term
		for _, v := range e.Vars {
			T := c.lookupType(v.Type)
			b := ts.BoundVar(v.Name, X.E.SortOf(T))
			bound = append(bound, b)
			sc.Bound[v.Name] = &Val{T: b, GT: T}
		}
		var pats [][]*Term
		for _, p := range e.Pats {
			var ps []*Term
			for _, q := range p {
				ps = append(ps, sc.eval(q).T)
			}
			pats = append(pats, ps)
		}
		body := sc.EvalBool(e.Args[0])
		return &Val{T: ts.Quant(e.Op, bound, body, pats), GT: types.Typ[types.Bool]}
	}
	c.fail("cannot evaluate %q (%s)", e.Src, e.Kind)
	return nil
}

func (c *SpecCtx) qualified(pkgName, name string) *Val {
	if _, ok := c.Bound[pkgName]; ok {
		return nil
	}
	if _, ok := c.Vars[pkgName]; ok {
		return nil
	}
	if c.Fr != nil && c.findCell(pkgName) != nil {
		return nil
	}
	var found *types.Package
	if c.Pkg != nil {
		for _, imp := range c.Pkg.Imports() {
			if imp.Name() == pkgName {
				found = imp
			}
		}
	}
	if found == nil {
		for _, p := range c.X.E.P.Pkgs {
			if shortPkg(p.PkgPath) == pkgName {
				found = p.Types
			}
		}
	}
	if found == nil {
		return nil
	}
	return c.pkgObject(found, name)
}

func (c *SpecCtx) pkgObject(pkg *types.Package, name string) *Val {
	X := c.X
	ts := X.E.TS
	obj := pkg.Scope().Lookup(name)
	switch o := obj.(type) {
	case *types.Const:
		switch o.Val().Kind() {
		case constant.Int:
			v, _ := constant.Int64Val(o.Val())
			return &Val{T: ts.IntLit(v), GT: o.Type()}
		case constant.String:
			return &Val{T: X.E.StrLit(constant.StringVal(o.Val())), GT: o.Type()}
		case constant.Bool:
			return &Val{T: ts.Bool(constant.BoolVal(o.Val())), GT: o.Type()}
		}
	case *types.Var:
		// package-level variable: its value in the state
		sp := X.E.P.Prog.Package(pkg)
		if sp != nil {
			if g, ok := sp.Members[name].(interface{ Name() string }); ok && g != nil {
				if gg := sp.Var(name); gg != nil {
					a := &Addr{Kind: AddrGlobal, Glob: gg, T: o.Type()}
					return &Val{T: X.load(c.state(), a), GT: o.Type()}
				}
			}
		}
	}
	return nil
}

func (c *SpecCtx) findCell(name string) *Cell {
	var best *Cell
	for f := c.Fr; f != nil; f = nil { // only the innermost frame
		for _, cell := range f.Cells {
			if cell.Name == name {
				if _, ok := c.St.Cells[cell]; ok {
					if best == nil || cell.ID > best.ID {
						best = cell
					}
				}
			}
		}
	}
	return best
}

func (c *SpecCtx) ident(name string) *Val {
	X := c.X
	if v, ok := c.Bound[name]; ok {
		return v
	}
	if c.InOld {
		if v, ok := c.OldVars[name]; ok {
			return v
		}
	}
	if v, ok := c.Vars[name]; ok {
		return v
	}
	if v, ok := c.FreeBind[name]; ok {
		return c.derefVal(v)
	}
	if c.Fr != nil {
		if cell := c.findCell(name); cell != nil {
			st := c.state()
			if t, ok := st.Cells[cell]; ok {
				return &Val{T: t, GT: cell.Type}
			}
		}
		// local arrays (kept in the element heap): the name denotes the pointer to the array
		for v, r := range c.Fr.Regs {
			if a, ok := v.(*ssa.Alloc); ok && a.Comment == name && r.T != nil {
				if _, isArr := deref(a.Type()).Underlying().(*types.Array); isArr {
					return &Val{T: r.T, GT: a.Type()}
				}
			}
		}
		// locals whose address escapes (boxed cells): the name denotes the content
		for v, r := range c.Fr.Regs {
			if a, ok := v.(*ssa.Alloc); ok && a.Heap && a.Comment == name && r.T != nil && r.A == nil {
				return c.derefVal(&Val{T: r.T, GT: a.Type()})
			}
		}
		// free variables of a closure: captured cells
		for fv, v := range c.Fr.Free {
			if fv.Name() == name {
				return c.derefVal(v)
			}
		}
	}
	if v, ok := c.OldVars[name]; ok {
		return v
	}
	// function-local ghost
	if srt, ok := X.ghostTypes[name]; ok {
		gt := sortGoType(srt)
		if T, ok := X.ghostGoTypes[name]; ok {
			switch T.Underlying().(type) {
			case *types.Pointer, *types.Slice, *types.Interface:
				gt = T
			}
		}
		return &Val{T: X.heap(c.state(), "GH|"+name, srt), GT: gt}
	}
	if c.Pkg != nil {
		if v := c.pkgObject(c.Pkg, name); v != nil {
			return v
		}
	}
	c.fail("unknown identifier %q", name)
	return nil
}

func sortGoType(s *Sort) types.Type {
	switch s {
	case SBool:
		return types.Typ[types.Bool]
	case SStr:
		return types.Typ[types.String]
	}
	return types.Typ[types.UntypedInt]
}

// wellTyped records what every value of Go type T satisfies for a term read from the heap
// (facts that are always true; terms under quantifiers are skipped).
func (c *SpecCtx) wellTyped(v *Val) *Val {
	if v == nil || v.T == nil || v.GT == nil || v.T.hasBV || c.St == nil {
		return v
	}
	if f := c.X.validity(c.state(), v.T, v.GT, 1); f != nil {
		c.St.assume(c.X.E.TS, f)
	}
	return v
}

func (c *SpecCtx) derefVal(v *Val) *Val {
	X := c.X
	if v.A != nil {
		return &Val{T: X.load(c.state(), v.A), GT: v.A.T}
	}
	pt, ok := v.GT.Underlying().(*types.Pointer)
	if !ok {
		c.fail("dereference of non-pointer")
	}
	a := &Addr{Kind: AddrObj, Ref: v.T, ObjT: pt.Elem(), T: pt.Elem()}
	return c.wellTyped(&Val{T: X.load(c.state(), a), GT: pt.Elem()})
}

func (c *SpecCtx) selectField(v *Val, name string) *Val {
	X := c.X
	ts := X.E.TS
	T := v.GT
	if v.A != nil && v.T == nil {
		T = v.A.T
		if p, ok := v.GT.Underlying().(*types.Pointer); ok {
			T = p.Elem()
		}
	}
	if T == nil {
		c.fail("field %s of untyped value", name)
	}
	obj, idx, _ := types.LookupFieldOrMethod(T, true, c.Pkg, name)
	if obj == nil {
		// unexported field of another package: search by name ignoring package
		var base types.Type = T
		if p, ok := base.Underlying().(*types.Pointer); ok {
			base = p.Elem()
		}
		if st := structOf(base); st != nil {
			for i := 0; i < st.NumFields(); i++ {
				if st.Field(i).Name() == name {
					obj, idx = st.Field(i), []int{i}
				}
			}
		}
	}
	if _, ok := obj.(*types.Var); !ok {
		c.fail("no field %q in %s", name, typeKey(T))
	}
	cur := v
	for _, fi := range idx {
		cur = c.fieldStep(cur, fi)
	}
	_ = ts
	return cur
}

func (c *SpecCtx) fieldStep(v *Val, fi int) *Val {
	X := c.X
	ts := X.E.TS
	if v.A != nil && v.T == nil {
		na := *v.A
		na.Path = append(append([]PathElem{}, v.A.Path...), PathElem{Field: fi})
		st := structOf(v.A.T)
		na.T = st.Field(fi).Type()
		return c.wellTyped(&Val{T: X.load(c.state(), &na), GT: na.T})
	}
	if p, ok := v.GT.Underlying().(*types.Pointer); ok {
		st := structOf(p.Elem())
		if st == nil {
			c.fail("field of pointer to non-struct")
		}
		a := &Addr{Kind: AddrObj, Ref: v.T, ObjT: p.Elem(), Path: []PathElem{{Field: fi}}, T: st.Field(fi).Type()}
		return c.wellTyped(&Val{T: X.load(c.state(), a), GT: a.T})
	}
	st := structOf(v.GT)
	if st == nil {
		c.fail("field of non-struct %s", typeKey(v.GT))
	}
	return &Val{T: ts.Sel(v.T, fi), GT: st.Field(fi).Type()}
}

func (c *SpecCtx) index(x, i *Val) *Val {
	if os.Getenv("GOVC_DBG") != "" {
		fmt.Fprintf(os.Stderr, "index: x=%s gt=%v i=%s\n", c.X.E.TS.Show(x.T), x.GT, c.X.E.TS.Show(i.T))
	}
	X := c.X
	ts := X.E.TS
	st := c.state()
	if x.Row != nil {
		if u, ok := x.GT.Underlying().(*types.Slice); ok {
			return &Val{T: ts.Select(x.Row, X.E.ElemIdx(ts.Sel(x.T, 1), i.T)), GT: u.Elem()}
		}
	}
	switch u := x.GT.Underlying().(type) {
	case *types.Slice:
		n, s := X.E.ElemHeap(u.Elem())
		return c.wellTyped(&Val{T: ts.Select(ts.Select(X.heap(st, n, s), ts.Sel(x.T, 0)), X.E.ElemIdx(ts.Sel(x.T, 1), i.T)), GT: u.Elem()})
	case *types.Basic:
		if u.Info()&types.IsString != 0 {
			return &Val{T: X.E.StrAt(x.T, i.T), GT: types.Typ[types.Uint8]}
		}
	case *types.Map:
		_, v := X.mapLoad(st, u, x.T, i.T)
		return c.wellTyped(&Val{T: v, GT: u.Elem()})
	case *types.Array:
		return &Val{T: ts.Select(x.T, i.T), GT: u.Elem()}
	case *types.Pointer:
		if at, ok := u.Elem().Underlying().(*types.Array); ok {
			n, s := X.E.ElemHeap(at.Elem())
			return &Val{T: ts.Select(ts.Select(X.heap(st, n, s), x.T), i.T), GT: at.Elem()}
		}
	}
	if x.T != nil && x.T.Sort.Elem != nil {
		return &Val{T: ts.Select(x.T, i.T), GT: nil}
	}
	c.fail("cannot index %s", typeKey(x.GT))
	return nil
}

func (c *SpecCtx) sliceExpr(e *SExpr) *Val {
	X := c.X
	ts := X.E.TS
	x := c.eval(e.Args[0])
	lo := ts.IntLit(0)
	if e.Args[1] != nil {
		lo = c.eval(e.Args[1]).T
	}
	switch u := x.GT.Underlying().(type) {
	case *types.Slice:
		hi := ts.Sel(x.T, 2)
		if e.Args[2] != nil {
			hi = c.eval(e.Args[2]).T
		}
		return &Val{T: ts.Ctor(X.E.SliceS, ts.Sel(x.T, 0), ts.Add(ts.Sel(x.T, 1), lo), ts.Sub(hi, lo), ts.Sub(ts.Sel(x.T, 3), lo)), GT: x.GT}
	case *types.Basic:
		if u.Info()&types.IsString != 0 {
			hi := X.E.StrLen(x.T)
			if e.Args[2] != nil {
				hi = c.eval(e.Args[2]).T
			}
			return &Val{T: X.E.StrSub(x.T, lo, hi), GT: x.GT}
		}
	}
	c.fail("cannot slice %s", typeKey(x.GT))
	return nil
}

func (c *SpecCtx) eqVals(a, b *Val, ea, eb *SExpr) *Term {
	X := c.X
	ts := X.E.TS
	if isNilExpr(ea) {
		a, b, ea, eb = b, a, eb, ea
	}
	if isNilExpr(eb) {
		if a.T == nil && a.A != nil {
			return ts.False() // the address of a variable, field or element is never nil
		}
		switch {
		case a.T.Sort == SIface:
			return ts.Eq(a.T, X.E.IfaceNil())
		case a.T.Sort == X.E.SliceS:
			return ts.Eq(ts.Sel(a.T, 0), ts.IntLit(0))
		case a.T.Sort == SInt:
			return ts.Eq(a.T, ts.IntLit(0))
		}
		c.fail("comparison of %s with nil", a.T.Sort.Name)
	}
	if a.T.Sort == SStr && b.T.Sort == SStr {
		return X.E.StrEq(a.T, b.T)
	}
	if a.T.Sort.FP != 0 && a.T.Sort == b.T.Sort {
		return ts.Raw("fp.eq", SBool, a.T, b.T) // IEEE equality (NaN != NaN)
	}
	if a.T.Sort != b.T.Sort && (a.T.Sort.BV != 0 || b.T.Sort.BV != 0 || a.T.Sort.FP != 0 || b.T.Sort.FP != 0) {
		x, y, _ := c.bvCoerce(a, b)
		if x.Sort.FP != 0 {
			return ts.Raw("fp.eq", SBool, x, y)
		}
		return ts.Eq(x, y)
	}
	if a.T.Sort != b.T.Sort {
		c.fail("comparison of different sorts %s and %s (%s, %s)", a.T.Sort.Name, b.T.Sort.Name, c.X.E.TS.Show(a.T), c.X.E.TS.Show(b.T))
	}
	return ts.Eq(a.T, b.T)
}

func (c *SpecCtx) binary(e *SExpr) *Val {
	X := c.X
	ts := X.E.TS
	boolT := types.Typ[types.Bool]
	switch e.Op {
	case "&&":
		return &Val{T: ts.And(c.EvalBool(e.Args[0]), c.EvalBool(e.Args[1])), GT: boolT}
	case "||":
		return &Val{T: ts.Or(c.EvalBool(e.Args[0]), c.EvalBool(e.Args[1])), GT: boolT}
	case "==>":
		return &Val{T: ts.Implies(c.EvalBool(e.Args[0]), c.EvalBool(e.Args[1])), GT: boolT}
	case "<==>":
		return &Val{T: ts.Eq(c.EvalBool(e.Args[0]), c.EvalBool(e.Args[1])), GT: boolT}
	case "in":
		k, m := c.eval(e.Args[0]), c.eval(e.Args[1])
		if mt, ok := m.GT.Underlying().(*types.Map); ok {
			p, _ := X.mapLoad(c.state(), mt, m.T, k.T)
			return &Val{T: p, GT: boolT}
		}
		if m.T.Sort.Elem == SBool {
			return &Val{T: ts.Select(m.T, k.T), GT: boolT}
		}
		c.fail("'in' needs a map or set")
	}
	a, b := c.eval(e.Args[0]), c.eval(e.Args[1])
	switch e.Op {
	case "==":
		return &Val{T: c.eqVals(a, b, e.Args[0], e.Args[1]), GT: boolT}
	case "!=":
		return &Val{T: ts.Not(c.eqVals(a, b, e.Args[0], e.Args[1])), GT: boolT}
	}
	if a.T != nil && b.T != nil && (a.T.Sort.BV != 0 || b.T.Sort.BV != 0 || a.T.Sort.FP != 0 || b.T.Sort.FP != 0) {
		return c.bvBinary(e, a, b)
	}
	if e.Op == "+" && a.T != nil && b.T != nil && a.T.Sort == SStr && b.T.Sort == SStr {
		return &Val{T: X.E.StrCat(a.T, b.T), GT: types.Typ[types.String]} // string concatenation
	}
	if a.T == nil || b.T == nil || a.T.Sort != SInt || b.T.Sort != SInt {
		c.fail("arithmetic on non-integers in %q", e.Src)
	}
	gt := a.GT
	switch e.Op {
	case "<":
		return &Val{T: ts.Lt(a.T, b.T), GT: boolT}
	case "<=":
		return &Val{T: ts.Le(a.T, b.T), GT: boolT}
	case ">":
		return &Val{T: ts.Gt(a.T, b.T), GT: boolT}
	case ">=":
		return &Val{T: ts.Ge(a.T, b.T), GT: boolT}
	case "+":
		return &Val{T: ts.Add(a.T, b.T), GT: types.Typ[types.UntypedInt]}
	case "-":
		return &Val{T: ts.Sub(a.T, b.T), GT: types.Typ[types.UntypedInt]}
	case "*":
		return &Val{T: ts.Mul(a.T, b.T), GT: types.Typ[types.UntypedInt]}
	case "/":
		return &Val{T: ts.Div(a.T, b.T), GT: types.Typ[types.UntypedInt]}
	case "%":
		return &Val{T: ts.Mod(a.T, b.T), GT: types.Typ[types.UntypedInt]}
	}
	_ = gt
	c.fail("unsupported operator %s", e.Op)
	return nil
}

func (c *SpecCtx) call(e *SExpr) *Val {
	X := c.X
	ts := X.E.TS
	boolT := types.Typ[types.Bool]
	intT := types.Typ[types.UntypedInt]
	switch e.Name {
	case "old":
		if c.Old == nil {
			c.fail("old() has no meaning here")
		}
		n := *c
		n.InOld = true
		return n.eval(e.Args[0])
	case "snapat", "oldat":
		// snapat(s, i) / oldat(s, i): element i (an expression of the CURRENT state) of slice s as it was in the
		// snapshot / old state (slice header and elements both read there)
		var stt *State
		if e.Name == "snapat" {
			stt = c.Snap
		} else {
			stt = c.Old
		}
		if stt == nil {
			c.fail("%s() has no state to read", e.Name)
		}
		n := *c
		n.St = stt
		n.InOld = false
		n.Old = stt
		x := n.eval(e.Args[0])
		i := c.eval(e.Args[1])
		return n.index(x, i)
	case "snap":
		if c.Snap == nil {
			c.fail("snap() needs a snapshot taken at an earlier call site (callsite ... snapshot)")
		}
		n := *c
		n.St = c.Snap
		n.InOld = false
		return n.eval(e.Args[0])
	case "pre":
		if c.Pre == nil {
			c.fail("pre() has no meaning here")
		}
		n := *c
		n.St = c.Pre
		n.InOld = false
		return n.eval(e.Args[0])
	case "len", "cap":
		x := c.eval(e.Args[0])
		switch u := x.GT.Underlying().(type) {
		case *types.Slice:
			if e.Name == "len" {
				return &Val{T: ts.Sel(x.T, 2), GT: intT}
			}
			return &Val{T: ts.Sel(x.T, 3), GT: intT}
		case *types.Basic:
			if u.Info()&types.IsString != 0 {
				return &Val{T: X.E.StrLen(x.T), GT: intT}
			}
		case *types.Map:
			return &Val{T: X.mapLen(c.state(), u, x.T), GT: intT}
		case *types.Array:
			return &Val{T: ts.IntLit(u.Len()), GT: intT}
		case *types.Chan:
			if e.Name == "cap" {
				// capacity the channel was made with (ghost; a channel's capacity never changes)
				return &Val{T: ts.Select(X.heap(c.state(), "GM|chancap", ArraySort(SInt, SInt)), x.T), GT: intT}
			}
		}
		c.fail("len of %s", typeKey(x.GT))
	case "arr": // backing-array identity of a slice
		x := c.eval(e.Args[0])
		return &Val{T: ts.Sel(x.T, 0), GT: intT}
	case "off":
		x := c.eval(e.Args[0])
		return &Val{T: ts.Sel(x.T, 1), GT: intT}
	case "unchanged":
		// unchanged(s): the backing array of slice s holds what it held in the old state (whole-array equality)
		x := c.eval(e.Args[0])
		el := sliceElem(x.GT)
		n, hs := X.E.ElemHeap(el)
		if c.Old == nil {
			c.fail("unchanged() needs an old state")
		}
		return &Val{T: ts.Eq(ts.Select(X.heap(c.St, n, hs), ts.Sel(x.T, 0)), ts.Select(X.heap(c.Old, n, hs), ts.Sel(x.T, 0))), GT: boolT}
	case "elemabs":
		// elemabs(s, j): element at absolute index j of the backing array of slice s
		x := c.eval(e.Args[0])
		j := c.eval(e.Args[1])
		el := sliceElem(x.GT)
		n, hs := X.E.ElemHeap(el)
		return &Val{T: ts.Select(ts.Select(X.heap(c.state(), n, hs), ts.Sel(x.T, 0)), j.T), GT: el}
	case "fresh":
		// allocated during the call: not allocated in the old state, non-nil
		x := c.eval(e.Args[0])
		t := x.T
		if t.Sort == X.E.SliceS {
			t = ts.Sel(t, 0)
		}
		if c.Old == nil {
			c.fail("fresh() needs an old state")
		}
		return &Val{T: ts.And(ts.Not(ts.Eq(t, ts.IntLit(0))), ts.Not(ts.Select(X.allocArr(c.Old), t))), GT: boolT}
	case "allocated":
		x := c.eval(e.Args[0])
		t := x.T
		if t.Sort == X.E.SliceS {
			t = ts.Sel(t, 0)
		}
		return &Val{T: ts.Select(X.allocArr(c.state()), t), GT: boolT}
	case "tag":
		x := c.eval(e.Args[0])
		return &Val{T: X.E.IfaceTag(x.T), GT: intT}
	case "typeis":
		x := c.eval(e.Args[0])
		T := c.lookupType(exprText(e.Args[1]))
		return &Val{T: ts.Eq(X.E.IfaceTag(x.T), ts.IntLit(int64(X.E.TypeID(T)))), GT: boolT}
	case "unbox":
		x := c.eval(e.Args[0])
		T := c.lookupType(exprText(e.Args[1]))
		return &Val{T: X.E.Unbox(x.T, T), GT: T}
	case "box":
		x := c.eval(e.Args[0])
		return &Val{T: X.E.Box(x.T, x.GT), GT: types.NewInterfaceType(nil, nil)}
	case "isfield": // isfield(a, obj, f): the address value a is &obj.f
		a := c.eval(e.Args[0])
		obj := c.eval(e.Args[1])
		fname := exprText(e.Args[2])
		if a.A == nil {
			c.fail("isfield: %s is not an address value", e.Args[0].Src)
		}
		p, ok := obj.GT.Underlying().(*types.Pointer)
		if !ok {
			c.fail("isfield: %s is not a pointer", e.Args[1].Src)
		}
		stT, ok := p.Elem().Underlying().(*types.Struct)
		if !ok {
			c.fail("isfield: %s does not point to a struct", e.Args[1].Src)
		}
		fi := -1
		for k := 0; k < stT.NumFields(); k++ {
			if stT.Field(k).Name() == fname {
				fi = k
			}
		}
		if fi < 0 {
			c.fail("isfield: no field %s", fname)
		}
		if a.A.Kind != AddrObj || len(a.A.Path) != 1 || a.A.Path[0].Field != fi || a.A.Path[0].Index != nil || typeKey(a.A.ObjT) != typeKey(p.Elem()) {
			return &Val{T: ts.False(), GT: boolT}
		}
		return &Val{T: ts.Eq(a.A.Ref, obj.T), GT: boolT}
	case "held", "wheld":
		lk := c.lockRef(e.Args[0])
		v := ts.Select(X.heap(c.state(), lk.heap, ArraySort(SInt, SInt)), lk.idx)
		if e.Name == "wheld" {
			return &Val{T: ts.Eq(v, ts.IntLit(1)), GT: boolT}
		}
		return &Val{T: ts.Not(ts.Eq(v, ts.IntLit(0))), GT: boolT}
	case "maxalloc":
		return &Val{T: X.heap(c.state(), "GM|maxalloc", SInt), GT: intT}
	case "maxmake":
		return &Val{T: X.heap(c.state(), "GM|maxmake", SInt), GT: intT}
	case "was": // was(g(args)): the ghost map g as it was in the old state, at arguments evaluated NOW
		inner := e.Args[0]
		for inner.Kind == "paren" {
			inner = inner.Args[0]
		}
		gm := X.E.Specs.GhostMaps[inner.Name]
		if gm == nil && c.Pkg != nil {
			gm = X.E.Specs.GhostMaps[shortPkg(c.Pkg.Path())+"."+inner.Name]
		}
		if inner.Kind != "call" || gm == nil {
			c.fail("was() needs a ghost map application")
		}
		c.gmOld = true
		v := c.ghostMapRead(gm, inner)
		c.gmOld = false
		return v
	case "ispointer":
		// ispointer(x): the dynamic type of the interface value x is a pointer type (decided over the types this
		// run has boxed so far - the boxing of x itself has happened by the time the clause is evaluated)
		x := c.eval(e.Args[0])
		tag := X.E.IfaceTag(x.T)
		var alts []*Term
		for _, T := range X.E.typeList {
			if _, isPtr := T.Underlying().(*types.Pointer); isPtr {
				alts = append(alts, ts.Eq(tag, ts.IntLit(int64(X.E.typeIDs[typeKey(T)]))))
			}
		}
		if len(alts) == 0 {
			return &Val{T: ts.False(), GT: boolT}
		}
		return &Val{T: ts.Or(alts...), GT: boolT}
	case "ismethod":
		// ismethod(f, recv, Name): the function value f is the method value recv.Name (decided on the symbolic value: a
		// closure created on this path from that bound method with that receiver)
		f := c.eval(e.Args[0])
		recv := c.eval(e.Args[1])
		mname := exprText(e.Args[2])
		clo := f.Clo
		if clo == nil && f.T != nil {
			clo = c.state().Clos[f.T]
		}
		if clo == nil || clo.Fn == nil || len(clo.Bindings) != 1 {
			return &Val{T: ts.False(), GT: boolT}
		}
		name := clo.Fn.Name()
		if !strings.HasSuffix(name, "$bound") || strings.TrimSuffix(name, "$bound") != mname {
			return &Val{T: ts.False(), GT: boolT}
		}
		b := clo.Bindings[0]
		if b.T == nil || recv.T == nil {
			return &Val{T: ts.False(), GT: boolT}
		}
		return &Val{T: ts.Eq(b.T, recv.T), GT: boolT}
	case "literal":
		// literal(x): the string x is built from string constants of the program only (through conditionals and
		// concatenations of constants): decided on the symbolic value, not by the solver - e.g. a format string that
		// no input can influence
		x := c.eval(e.Args[0])
		isLit := map[*Term]bool{}
		for _, t := range X.E.strLits {
			isLit[t] = true
		}
		var only func(t *Term) bool
		only = func(t *Term) bool {
			switch {
			case isLit[t]:
				return true
			case t.Op == "ite" && len(t.Args) == 3:
				return only(t.Args[1]) && only(t.Args[2])
			case t.Op == "app" && t.Name == "str.cat" && len(t.Args) == 2:
				return only(t.Args[0]) && only(t.Args[1])
			}
			return false
		}
		return &Val{T: ts.Bool(x.T != nil && only(x.T)), GT: boolT}
	case "panicked": // this path went through a call marked `maypanic` that panicked (and was recovered)
		return &Val{T: X.heap(c.state(), "GH|~panicked", SBool), GT: boolT}
	case "min", "max":
		a, b := c.eval(e.Args[0]), c.eval(e.Args[1])
		if e.Name == "min" {
			return &Val{T: ts.Ite(ts.Le(a.T, b.T), a.T, b.T), GT: intT}
		}
		return &Val{T: ts.Ite(ts.Le(a.T, b.T), b.T, a.T), GT: intT}
	case "str": // string of the current content of a byte slice (uninterpreted per content)
		x := c.eval(e.Args[0])
		sl := x.GT.Underlying().(*types.Slice)
		return &Val{T: X.strOfBytes(c.state(), x.T, sl.Elem()), GT: types.Typ[types.String]}
	case "visited":
		// visited(x): element x has been handed to the callback by the Set.Each iteration being specified
		vis := X.eachVisited
		if vis == nil {
			if v, ok := c.Vars["visited~"]; ok {
				vis = v.T // range over a map: the iterator's visited set
			}
		}
		if vis == nil {
			c.fail("visited() not available here")
		}
		x := c.eval(e.Args[0])
		return &Val{T: ts.Select(vis, x.T), GT: boolT}
	}
	if gm, ok := X.E.Specs.GhostMaps[e.Name]; ok {
		return c.ghostMapRead(gm, e)
	}
	if sf, ok := X.E.Specs.SpecFuncs[e.Name]; ok {
		return c.specCall(sf, e)
	}
	c.fail("unknown function %q in specification", e.Name)
	return nil
}

// ghost maps: declared state indexed by values, e.g. outlen(w io.Writer) int
func (c *SpecCtx) ghostMapSort(gm *GhostMap) (string, *Sort, []*Sort) {
	X := c.X
	sc := *c
	for _, p := range X.E.P.Pkgs {
		if shortPkg(p.PkgPath) == gm.Pkg {
			sc.Pkg = p.Types
		}
	}
	res := X.E.SortOf(sc.lookupType(gm.Result))
	var ps []*Sort
	srt := res
	for i := len(gm.Params) - 1; i >= 0; i-- {
		p := X.E.SortOf(sc.lookupType(gm.Params[i].Type))
		ps = append([]*Sort{p}, ps...)
		srt = ArraySort(p, srt)
	}
	return "GM|" + gm.Name, srt, ps
}

func (c *SpecCtx) ghostMapRead(gm *GhostMap, e *SExpr) *Val {
	X := c.X
	ts := X.E.TS
	name, srt, ps := c.ghostMapSort(gm)
	if len(e.Args) != len(ps) {
		c.fail("ghost map %s takes %d arguments", gm.Name, len(ps))
	}
	hst := c.state()
	if c.gmOld && c.Old != nil {
		hst = c.Old
	}
	wasOld := c.gmOld
	c.gmOld = false
	t := X.heap(hst, name, srt)
	defer func() { c.gmOld = wasOld }()
	for i, a := range e.Args {
		v := c.eval(a)
		vt := c.coerce(v, ps[i])
		t = ts.Select(t, vt)
	}
	sc := *c
	for _, p := range X.E.P.Pkgs {
		if shortPkg(p.PkgPath) == gm.Pkg {
			sc.Pkg = p.Types
		}
	}
	return &Val{T: t, GT: sc.lookupType(gm.Result)}
}

func (c *SpecCtx) coerce(v *Val, want *Sort) *Term {
	if v.T.Sort == want {
		return v.T
	}
	if want == SIface && v.GT != nil {
		return c.X.E.Box(v.T, v.GT)
	}
	c.fail("argument of sort %s where %s is expected", v.T.Sort.Name, want.Name)
	return nil
}

func (c *SpecCtx) specCall(sf *SpecFunc, e *SExpr) *Val {
	X := c.X
	ts := X.E.TS
	if len(e.Args) != len(sf.Params) {
		c.fail("spec function %s takes %d arguments", sf.Name, len(sf.Params))
	}
	var args []*Val
	for _, a := range e.Args {
		args = append(args, c.eval(a))
	}
	sc := c.sub()
	for _, p := range X.E.P.Pkgs {
		if shortPkg(p.PkgPath) == sf.Pkg && sf.Pkg != "" {
			sc.Pkg = p.Types
		}
	}
	resT := sc.lookupType(sf.Result)
	if X.E.specTrial[sf.Name] {
		return &Val{T: ts.Fresh("trial", X.E.SortOf(resT)), GT: resT}
	}
	if sf.Body != nil && !sf.Rec {
		// macro expansion in the current state
		for i, p := range sf.Params {
			sc.Bound[p.Name] = args[i]
		}
		sc.Fr = nil
		sc.Vars = map[string]*Val{}
		sc.OldVars = map[string]*Val{}
		v := sc.eval(sf.Body)
		return &Val{T: v.T, GT: resT}
	}
	// uninterpreted, or recursively defined: a function of its arguments and of the heap components its
	// body reads (passed as extra arguments, so that it means the same in every state).
	fname := "sf~" + sf.Name
	var as []*Term
	var sorts []*Sort
	for i, a := range args {
		want := X.E.SortOf(sc.lookupType(sf.Params[i].Type))
		as = append(as, c.coerce(a, want))
		sorts = append(sorts, want)
	}

	resS := X.E.SortOf(resT)
	deps := X.specDepsEnv(sf, sc.Pkg, c.TypeEnv)
	var hargs []*Term
	var hsorts []*Sort
	for _, d := range deps {
		hargs = append(hargs, X.heap(c.state(), d.name, d.sort))
		hsorts = append(hsorts, d.sort)
	}
	// slice parameters: their backing array (the row of the element heap) travels as a hidden argument, so that the
	// function depends on that array only and not on the whole element heap
	type rowp struct {
		idx  int
		sort *Sort
	}
	var rows []rowp
	for i, p := range sf.Params {
		if sl, ok := sc.lookupType(p.Type).Underlying().(*types.Slice); ok {
			_, hs := X.E.ElemHeap(sl.Elem())
			rows = append(rows, rowp{i, hs.Elem})
		}
	}
	for _, r := range rows {
		a := args[r.idx]
		var rt *Term
		if a.Row != nil {
			rt = a.Row
		} else {
			sl := sc.lookupType(sf.Params[r.idx].Type).Underlying().(*types.Slice)
			n, hs := X.E.ElemHeap(sl.Elem())
			rt = ts.Select(X.heap(c.state(), n, hs), ts.Sel(as[r.idx], 0))
		}
		hargs = append(hargs, rt)
		hsorts = append(hsorts, r.sort)
	}
	if len(c.TypeEnv) > 0 {
		// one SMT function per instantiation of a generic spec function
		for _, srt := range append(append([]*Sort{}, hsorts...), sorts...) {
			fname += "~" + sanitize(srt.Name)
		}
	}
	if _, ok := ts.Funcs[fname]; !ok {
		ts.DeclareFunc(fname, append(append([]*Sort{}, hsorts...), sorts...), resS)
		if sf.Body != nil {
			// defining axiom: forall heaps, params. f(heaps, params) = body
			hs := &State{PC: ts.True(), Heaps: map[string]*Term{}, Cells: map[*Cell]*Term{}, Clos: map[*Term]*Closure{}}
			var bound, bargs []*Term
			for _, d := range deps {
				b := ts.BoundVar("h", d.sort)
				bound = append(bound, b)
				bargs = append(bargs, b)
				hs.Heaps[d.name] = b
			}
			dc := &SpecCtx{X: X, St: hs, Old: hs, Vars: map[string]*Val{}, OldVars: map[string]*Val{}, Bound: map[string]*Val{}, Pkg: sc.Pkg, What: "definition of " + sf.Name, TypeEnv: c.TypeEnv}
			rowB := map[int]*Term{}
			for _, r := range rows {
				b := ts.BoundVar("row", r.sort)
				bound = append(bound, b)
				bargs = append(bargs, b)
				rowB[r.idx] = b
			}
			for i, p := range sf.Params {
				b := ts.BoundVar(p.Name, sorts[i])
				bound = append(bound, b)
				bargs = append(bargs, b)
				dc.Bound[p.Name] = &Val{T: b, GT: dc.lookupType(p.Type), Row: rowB[i]}
			}
			app := ts.App(fname, resS, bargs...)
			body := dc.eval(sf.Body)
			ts.AddAxiom(fname, ts.Forall(bound, ts.Eq(app, body.T), []*Term{app}))
		}
	}
	return &Val{T: ts.App(fname, resS, append(append([]*Term{}, hargs...), as...)...), GT: resT}
}

type heapDep struct {
	name string
	sort *Sort
}

// specDeps: the heap components the body of a recursive spec function reads (found by a trial evaluation).
func (X *Exec) specDeps(sf *SpecFunc, pkg *types.Package) []heapDep {
	return X.specDepsEnv(sf, pkg, nil)
}

func (X *Exec) specDepsEnv(sf *SpecFunc, pkg *types.Package, env map[string]types.Type) []heapDep {
	if d, ok := X.E.specDeps[sf.Name]; ok {
		return d
	}
	if sf.Body == nil {
		X.E.specDeps[sf.Name] = nil
		return nil
	}
	ts := X.E.TS
	X.E.specDeps[sf.Name] = nil // recursion guard
	saved := X.heapTrace
	X.heapTrace = map[string]*Sort{}
	hs := &State{PC: ts.True(), Heaps: map[string]*Term{}, Cells: map[*Cell]*Term{}, Clos: map[*Term]*Closure{}}
	dc := &SpecCtx{X: X, St: hs, Old: hs, Vars: map[string]*Val{}, OldVars: map[string]*Val{}, Bound: map[string]*Val{}, Pkg: pkg, What: "dependencies of " + sf.Name, TypeEnv: env}
	for _, p := range sf.Params {
		T := dc.lookupType(p.Type)
		v := &Val{T: ts.BoundVar(p.Name, X.E.SortOf(T)), GT: T}
		if sl, ok := T.Underlying().(*types.Slice); ok {
			_, hs := X.E.ElemHeap(sl.Elem())
			v.Row = ts.BoundVar("row", hs.Elem)
		}
		dc.Bound[p.Name] = v
	}
	X.E.specTrial[sf.Name] = true
	dc.eval(sf.Body)
	delete(X.E.specTrial, sf.Name)
	var deps []heapDep
	for n, s := range X.heapTrace {
		deps = append(deps, heapDep{n, s})
	}
	sort.Slice(deps, func(i, j int) bool { return deps[i].name < deps[j].name })
	X.heapTrace = saved
	X.E.specDeps[sf.Name] = deps
	return deps
}

type lockID struct {
	heap string
	idx  *Term
}

// lockRef: the lock named by a spec expression such as s.mu (field of type sync.Mutex / RWMutex).
func (c *SpecCtx) lockRef(e *SExpr) lockID {
	for e.Kind == "paren" {
		e = e.Args[0]
	}
	if e.Kind != "sel" {
		c.fail("held() needs obj.mutexfield")
	}
	obj := c.eval(e.Args[0])
	p, ok := obj.GT.Underlying().(*types.Pointer)
	if !ok {
		c.fail("held(): %s is not a pointer", e.Args[0].Src)
	}
	n, _ := c.X.E.LockHeap(p.Elem(), e.Name)
	return lockID{n, obj.T}
}

var _ = token.NoPos

// exprText: the text of a type written as an expression (*pkg.T, T)
func exprText(e *SExpr) string {
	switch e.Kind {
	case "ident":
		return e.Name
	case "paren":
		return exprText(e.Args[0])
	case "unary":
		return e.Op + exprText(e.Args[0])
	case "sel":
		return exprText(e.Args[0]) + "." + e.Name
	}
	return strings.TrimSpace(e.Src)
}

// bv mode: a literal (mathematical integer) next to a bit-vector or float operand takes that operand's sort
func (c *SpecCtx) bvCoerce(a, b *Val) (*Term, *Term, types.Type) {
	ts := c.X.E.TS
	conv := func(lit *Term, s *Sort) *Term {
		if lit.Sort == s {
			return lit
		}
		if lit.Op != "int" {
			c.fail("bv mode: cannot mix %s and %s", lit.Sort.Name, s.Name)
		}
		if s.BV != 0 {
			return ts.BVLit(lit.Int, s.BV)
		}
		return ts.FPLitDecimal(lit.Int.String(), s)
	}
	if a.T.Sort.BV != 0 || a.T.Sort.FP != 0 {
		return a.T, conv(b.T, a.T.Sort), a.GT
	}
	return conv(a.T, b.T.Sort), b.T, b.GT
}

func (c *SpecCtx) bvBinary(e *SExpr, a, b *Val) *Val {
	ts := c.X.E.TS
	x, y, T := c.bvCoerce(a, b)
	boolT := types.Typ[types.Bool]
	if x.Sort.FP != 0 {
		op := map[string]string{"<": "fp.lt", "<=": "fp.leq", ">": "fp.gt", ">=": "fp.geq"}[e.Op]
		if op == "" {
			c.fail("bv mode: float operator %s", e.Op)
		}
		return &Val{T: ts.Raw(op, SBool, x, y), GT: boolT}
	}
	signed := true
	if T != nil {
		_, signed = intBits(T)
	}
	pre := "bvu"
	if signed {
		pre = "bvs"
	}
	switch e.Op {
	case "<":
		return &Val{T: ts.Raw(pre+"lt", SBool, x, y), GT: boolT}
	case "<=":
		return &Val{T: ts.Raw(pre+"le", SBool, x, y), GT: boolT}
	case ">":
		return &Val{T: ts.Raw(pre+"gt", SBool, x, y), GT: boolT}
	case ">=":
		return &Val{T: ts.Raw(pre+"ge", SBool, x, y), GT: boolT}
	case "+":
		return &Val{T: ts.Raw("bvadd", x.Sort, x, y), GT: T}
	case "-":
		return &Val{T: ts.Raw("bvsub", x.Sort, x, y), GT: T}
	case "*":
		return &Val{T: ts.Raw("bvmul", x.Sort, x, y), GT: T}
	}
	c.fail("bv mode: operator %s", e.Op)
	return nil
}

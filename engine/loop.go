package main

import (
	"fmt"
	"go/types"
	"os"
	"sort"
	"strings"

	"golang.org/x/tools/go/ssa"
)

// modSet: what a loop (or any region) may modify, found by a scratch execution of its body from a
// fully havoced state and a diff of the resulting states against that start state.
type modSet struct {
	// owned heap cells (see ownedCell) whose content the loop itself assigns: "heap|ref id"
	stableMod map[string]bool
	cells     map[*ssa.Alloc]bool
	ccell     map[*Cell]bool
	heaps     map[string]*Sort
	all       bool
}

func (X *Exec) modifiedIn(fr *Frame, li *loopInfo, st *State) *modSet {
	key := X.loopKey(fr, li)
	if ms, ok := X.modCache[key]; ok {
		// cells are per frame activation: re-resolve through the allocs
		ms.ccell = map[*Cell]bool{}
		for f := fr; f != nil; f = f.Parent {
			for a, c := range f.Cells {
				if ms.cells[a] {
					ms.ccell[c] = true
				}
			}
		}
		return ms
	}
	ts := X.E.TS
	ms := &modSet{cells: map[*ssa.Alloc]bool{}, ccell: map[*Cell]bool{}, heaps: map[string]*Sort{}}

	saveProbe, saveChecks, saveObls := X.probe, X.candChecks, len(X.Obls)
	saveRets := map[*Frame]int{}
	for f := fr; f != nil; f = f.Parent {
		saveRets[f] = len(f.Rets)
	}
	saveRegs := map[ssa.Value]*Val{}
	for k, v := range fr.Regs {
		saveRegs[k] = v
	}
	saveCells := map[*ssa.Alloc]*Cell{}
	for k, v := range fr.Cells {
		saveCells[k] = v
	}
	saveCands := X.cands
	X.cands = map[string][]*Candidate{}
	for k, v := range saveCands {
		X.cands[k] = v
	}
	X.probe = true
	X.scratchDepth++

	s := st.Clone()
	s.PC = ts.True()
	startCells := map[*Cell]*Term{}
	for c := range s.Cells {
		if _, isFunc := c.Type.Underlying().(*types.Signature); isFunc {
			// function values keep their identity (closures known on this path stay callable); a loop that
			// reassigns one is detected by the comparison below all the same
			startCells[c] = s.Cells[c]
			continue
		}
		v := X.freshOfType(s, c.Type, "scr."+c.Name)
		s.Cells[c] = v
		startCells[c] = v
	}
	X.epochSeq++
	s.Epoch = X.epochSeq
	startEpoch := s.Epoch
	startHeaps := map[string]*Term{}
	var names []string
	for n := range X.heapSorts {
		names = append(names, n)
	}
	sort.Strings(names)
	for _, n := range names {
		if strings.HasPrefix(n, "C|func") {
			// cells holding function values keep their content (see above)
			startHeaps[n] = X.heap(st, n, X.heapSorts[n])
			s.Heaps[n] = startHeaps[n]
			continue
		}
		delete(s.Heaps, n)
		if strings.HasPrefix(n, "LK|") || strings.HasPrefix(n, "GH|") {
			// not epoch-based: an arbitrary lock state / ghost value at the loop head (the pre-state constant would
			// make paths that unlock look infeasible)
			s.Heaps[n] = X.E.TS.Fresh("scr."+n, X.heapSorts[n])
		}
		startHeaps[n] = X.heap(s, n, X.heapSorts[n])
	}
	cfg := analyzeCFG(fr.Fn)
	exits, latches := X.runRegion(fr, cfg, li.Body, li.Head, s, li)
	var finals []*State
	for _, e := range exits {
		finals = append(finals, e.St)
	}
	finals = append(finals, latches...)
	for f := fr; f != nil; f = f.Parent {
		for _, r := range f.Rets[saveRets[f]:] {
			finals = append(finals, r.St)
		}
		f.Rets = f.Rets[:saveRets[f]]
	}
	cellAlloc := map[*Cell]*ssa.Alloc{}
	for f := fr; f != nil; f = f.Parent {
		for a, c := range f.Cells {
			cellAlloc[c] = a
		}
	}
	for _, f := range finals {
		if f.Epoch != startEpoch {
			ms.all = true
		}
		for c, v0 := range startCells {
			if v, ok := f.Cells[c]; ok && v != v0 {
				ms.ccell[c] = true
				if a := cellAlloc[c]; a != nil {
					ms.cells[a] = true
				}
			}
		}
		for n, v := range f.Heaps {
			v0, ok := startHeaps[n]
			if !ok {
				// a component first touched inside the loop: compare with what the start state reads
				v0 = X.heap(s, n, X.heapSorts[n])
			}
			if v != v0 {
				ms.heaps[n] = X.heapSorts[n]
				for _, sr := range f.Stable {
					if sr.Heap == n && X.E.TS.Select(v, sr.Ref) != X.E.TS.Select(v0, sr.Ref) {
						if ms.stableMod == nil {
							ms.stableMod = map[string]bool{}
						}
						ms.stableMod[fmt.Sprintf("%s|%p", n, sr.Alloc)] = true
					}
				}
			}
			if os.Getenv("GOVC_DBG") != "" && strings.HasPrefix(n, "LK|") {
				fmt.Fprintf(os.Stderr, "modifiedIn %s: %s start=%s final=%s\n", key, n, X.E.TS.Show(v0), X.E.TS.Show(v))
			}
		}
	}

	X.probe, X.candChecks = saveProbe, saveChecks
	X.Obls = X.Obls[:saveObls]
	X.cands = saveCands
	X.scratchDepth--
	fr.Regs = saveRegs
	fr.Cells = saveCells
	X.modCache[key] = ms
	return ms
}

// havocMod replaces everything in ms by fresh values (with the validity assumptions of their types).
func (X *Exec) havocMod(fr *Frame, st *State, ms *modSet, tag string) {
	if ms.all {
		X.havocAll(st, tag)
	}
	var cells []*Cell
	for c := range ms.ccell {
		cells = append(cells, c)
	}
	sort.Slice(cells, func(i, j int) bool { return cells[i].ID < cells[j].ID })
	for _, c := range cells {
		if _, ok := st.Cells[c]; ok {
			st.Cells[c] = X.freshOfType(st, c.Type, tag+"."+c.Name)
		}
	}
	var names []string
	for n := range ms.heaps {
		names = append(names, n)
	}
	sort.Strings(names)
	for _, n := range names {
		if strings.HasPrefix(n, "alloc") {
			X.havocAlloc(st, tag)
			continue
		}
		X.heapSorts[n] = ms.heaps[n]
		oldH := X.heap(st, n, ms.heaps[n])
		nh := X.E.TS.Fresh(tag+"."+n, ms.heaps[n])
		for _, sr := range st.Stable {
			if sr.Heap == n && !ms.stableMod[fmt.Sprintf("%s|%p", n, sr.Alloc)] {
				nh = X.E.TS.Store(nh, sr.Ref, X.E.TS.Select(oldH, sr.Ref)) // an owned cell the loop does not assign
			}
		}
		st.Heaps[n] = nh
	}
}

// havocAlloc: allocation only grows.
func (X *Exec) havocAlloc(st *State, tag string) {
	ts := X.E.TS
	srt := ArraySort(SInt, SBool)
	old := X.heap(st, AllocHeap, srt)
	nw := ts.Fresh(tag+".alloc", srt)
	r := ts.BoundVar("r", SInt)
	st.assume(ts, ts.Forall([]*Term{r}, ts.Implies(ts.Select(old, r), ts.Select(nw, r)), []*Term{ts.Select(old, r)}))
	X.setHeap(st, AllocHeap, srt, nw)
}

// havocAll: an unknown call may change every heap component except this goroutine's lock state,
// the function-local ghosts and (monotonically) the allocation map.
func (X *Exec) havocAll(st *State, tag string) {
	var names []string
	for n := range X.heapSorts {
		names = append(names, n)
	}
	sort.Strings(names)
	keep := map[string]*Term{}
	for _, n := range names {
		if strings.HasPrefix(n, "LK|") || strings.HasPrefix(n, "GH|") || n == "GM|chancap" {
			keep[n] = X.heap(st, n, X.heapSorts[n])
		}
	}
	oldAlloc := X.heap(st, AllocHeap, ArraySort(SInt, SBool))
	type kept struct {
		sr stableRec
		v  *Term
	}
	var stable []kept
	for _, sr := range st.Stable {
		if os.Getenv("GOVC_NOSTABLE") != "" {
			break
		}
		stable = append(stable, kept{sr, X.E.TS.Select(X.heap(st, sr.Heap, sr.Sort), sr.Ref)})
	}
	defer func() {
		for _, k := range stable {
			X.setHeap(st, k.sr.Heap, k.sr.Sort, X.E.TS.Store(X.heap(st, k.sr.Heap, k.sr.Sort), k.sr.Ref, k.v))
		}
	}()
	X.epochSeq++
	st.Epoch = X.epochSeq
	for _, n := range names {
		delete(st.Heaps, n)
	}
	for n, v := range keep {
		st.Heaps[n] = v
	}
	st.Heaps[AllocHeap] = oldAlloc
	X.heapSorts[AllocHeap] = ArraySort(SInt, SBool)
	X.havocAlloc(st, tag)
	// knowledge about closures stored in the heap is gone, values held in registers stay
}

package main

import (
	"fmt"
	"go/types"
	"os"
	"sort"
	"strings"

	"golang.org/x/tools/go/packages"
	"golang.org/x/tools/go/ssa"
	"golang.org/x/tools/go/ssa/ssautil"
)

const modPath = "github.com/karagenc/socket.io-go"

// Program is the loaded /repo: type-checked packages and their go/ssa form.
type Program struct {
	Dir   string
	Pkgs  []*packages.Package
	Prog  *ssa.Program
	SPkgs map[string]*ssa.Package // by import path
	Funcs map[string]*ssa.Function // by short key, e.g. "parser.(*Packet).Encode", "sio.(*handlerStore).off$1"
	Keys  map[*ssa.Function]string
}

// shortPkg maps an import path of the module to the short package key used in function keys.
func shortPkg(path string) string {
	switch {
	case path == modPath:
		return "sio"
	case path == modPath+"/engine.io":
		return "eio"
	case path == modPath+"/engine.io/parser":
		return "eioparser"
	case path == modPath+"/parser":
		return "parser"
	case path == modPath+"/parser/json":
		return "jsonparser"
	case path == modPath+"/parser/json/serializer/stdjson":
		return "stdjson"
	case strings.HasPrefix(path, modPath+"/"):
		p := strings.TrimPrefix(path, modPath+"/")
		parts := strings.Split(p, "/")
		return parts[len(parts)-1]
	}
	return path
}

func loadProgram(dir string, patterns []string) (*Program, error) {
	cfg := &packages.Config{
		Mode: packages.NeedName | packages.NeedFiles | packages.NeedCompiledGoFiles | packages.NeedImports |
			packages.NeedDeps | packages.NeedTypes | packages.NeedTypesSizes | packages.NeedSyntax | packages.NeedTypesInfo | packages.NeedModule,
		Dir:        dir,
		BuildFlags: []string{"-tags=verif", "-mod=mod"},
		Env:        append(os.Environ(), "GOFLAGS=-mod=mod", "GOPROXY=off", "GOSUMDB=off", "GOTOOLCHAIN=local"),
	}
	pkgs, err := packages.Load(cfg, patterns...)
	if err != nil {
		return nil, err
	}
	var errs []string
	packages.Visit(pkgs, nil, func(p *packages.Package) {
		if !strings.HasPrefix(p.PkgPath, modPath) {
			return
		}
		for _, e := range p.Errors {
			errs = append(errs, e.Error())
		}
	})
	if len(errs) > 0 {
		return nil, fmt.Errorf("load errors:\n%s", strings.Join(errs, "\n"))
	}
	prog, spkgs := ssautil.Packages(pkgs, ssa.NaiveForm|ssa.GlobalDebug|ssa.InstantiateGenerics)
	P := &Program{Dir: dir, Pkgs: pkgs, Prog: prog, SPkgs: map[string]*ssa.Package{}, Funcs: map[string]*ssa.Function{}, Keys: map[*ssa.Function]string{}}
	for i, sp := range spkgs {
		if sp == nil {
			return nil, fmt.Errorf("no ssa package for %s", pkgs[i].PkgPath)
		}
		sp.Build()
		P.SPkgs[pkgs[i].PkgPath] = sp
	}
	// enumerate functions through types.Func definitions (gets generic bodies too)
	for _, p := range pkgs {
		var objs []*types.Func
		for _, obj := range p.TypesInfo.Defs {
			if f, ok := obj.(*types.Func); ok {
				objs = append(objs, f)
			}
		}
		sort.Slice(objs, func(i, j int) bool { return objs[i].Pos() < objs[j].Pos() })
		for _, f := range objs {
			fn := prog.FuncValue(f)
			if fn == nil || fn.Blocks == nil {
				continue
			}
			P.addFunc(fn, funcKey(fn))
		}
	}
	// the synthetic package initialisers (initial values of package-level variables)
	for _, sp := range P.SPkgs {
		if fn := sp.Func("init"); fn != nil && fn.Blocks != nil {
			P.addFunc(fn, funcKey(fn))
		}
	}
	return P, nil
}

func (P *Program) addFunc(fn *ssa.Function, key string) {
	if _, dup := P.Funcs[key]; dup {
		return
	}
	P.Funcs[key] = fn
	P.Keys[fn] = key
	for _, a := range fn.AnonFuncs {
		P.addFunc(a, funcKey(a))
	}
}

// funcKey: "pkg.Func", "pkg.(*T).M", "pkg.(T).M", closures "pkg.(*T).M$1".
func funcKey(fn *ssa.Function) string {
	if fn.Parent() != nil {
		// closure: parent's key + suffix after parent's name
		pk := funcKey(fn.Parent())
		suffix := strings.TrimPrefix(fn.Name(), fn.Parent().Name())
		return pk + suffix
	}
	pkg := ""
	if fn.Pkg != nil {
		pkg = shortPkg(fn.Pkg.Pkg.Path())
	} else if fn.Object() != nil && fn.Object().Pkg() != nil {
		pkg = shortPkg(fn.Object().Pkg().Path())
	}
	if recv := fn.Signature.Recv(); recv != nil {
		t := recv.Type()
		star := ""
		if p, ok := t.(*types.Pointer); ok {
			t = p.Elem()
			star = "*"
		}
		name := t.String()
		if n, ok := t.(*types.Named); ok {
			name = n.Obj().Name()
		} else if a, ok := t.(*types.Alias); ok {
			name = a.Obj().Name()
		}
		return fmt.Sprintf("%s.(%s%s).%s", pkg, star, name, fn.Name())
	}
	return pkg + "." + fn.Name()
}

package main

import (
	"bytes"
	"context"
	"fmt"
	"os"
	"os/exec"
	"path/filepath"
	"strings"
	"sync"
	"time"
)

type SolverPool struct {
	Dir       string // scratch directory for query files
	Parallel  int
	TwoSolver bool // thorough: every proof must be confirmed by two different solvers
	seq       int
	mu        sync.Mutex
	Stats     map[string]*SolverStat
	KeepFiles bool
}

type SolverStat struct {
	Won  int
	Secs float64
}

type solverDef struct {
	Name string
	Cmd  []string
	CVC5 bool
}

func solverDefs(timeout float64) []solverDef {
	ms := int(timeout * 1000)
	return []solverDef{
		{Name: "z3-5.1.0", Cmd: []string{"z3-new", fmt.Sprintf("-T:%d", int(timeout)+1), fmt.Sprintf("-t:%d", ms)}},
		{Name: "z3-4.8.12", Cmd: []string{"/usr/bin/z3", fmt.Sprintf("-T:%d", int(timeout)+1), fmt.Sprintf("-t:%d", ms)}},
		{Name: "cvc5-1.0.3", Cmd: []string{"/usr/bin/cvc5", "--enum-inst", fmt.Sprintf("--tlimit=%d", ms)}, CVC5: true},
	}
}

func NewSolverPool(dir string) *SolverPool {
	os.MkdirAll(dir, 0o755)
	return &SolverPool{Dir: dir, Parallel: 12, Stats: map[string]*SolverStat{}}
}

type solveOut struct {
	solver string
	answer string // sat unsat unknown
	secs   float64
	output string
}

func runSolver(ctx context.Context, def solverDef, file string) solveOut {
	t0 := time.Now()
	cmd := exec.CommandContext(ctx, def.Cmd[0], append(def.Cmd[1:], file)...)
	var out bytes.Buffer
	cmd.Stdout = &out
	cmd.Stderr = &out
	if err := cmd.Run(); err != nil && out.Len() == 0 {
		// the solver did not even start (resource shortage): try once more after a pause
		time.Sleep(200 * time.Millisecond)
		out.Reset()
		cmd = exec.CommandContext(ctx, def.Cmd[0], append(def.Cmd[1:], file)...)
		cmd.Stdout = &out
		cmd.Stderr = &out
		if err2 := cmd.Run(); err2 != nil && out.Len() == 0 {
			out.WriteString("solver failed to run: " + err2.Error())
		}
	}
	s := out.String()
	first := strings.TrimSpace(strings.SplitN(s, "\n", 2)[0])
	ans := "unknown"
	switch first {
	case "sat", "unsat":
		ans = first
	}
	return solveOut{def.Name, ans, time.Since(t0).Seconds(), s}
}

// solveOne: z3-new alone first (short), then all three raced.
func (sp *SolverPool) solveOne(ts *TermStore, o *Obligation, timeout float64, fast bool) {
	sp.mu.Lock()
	sp.seq++
	id := sp.seq
	sp.mu.Unlock()
	mkq := func(cvc bool) string {
		if cvc {
			return o.queryCVC
		}
		return o.Query
	}
	qz := mkq(false)
	if len(qz) > 4<<20 {
		o.Status, o.Solver = "unknown", "none (query larger than 4 MB)"
		return
	}
	fz := filepath.Join(sp.Dir, fmt.Sprintf("q%06d.smt2", id))
	os.WriteFile(fz, []byte(qz), 0o644)
	defer func() {
		if !sp.KeepFiles {
			os.Remove(fz)
		}
	}()
	defs := solverDefs(timeout)
	finish := func(r solveOut, confirmed string) {
		o.Secs = r.secs
		o.Solver = r.solver
		if confirmed != "" {
			o.Solver += "+" + confirmed
		}
		switch {
		case o.WantSat && r.answer == "sat":
			o.Status = "proved" // cover satisfied
		case o.WantSat && r.answer == "unsat":
			o.Status = "failed"
		case !o.WantSat && r.answer == "unsat":
			o.Status = "proved"
		case !o.WantSat && r.answer == "sat":
			o.Status = "failed"
			o.Model = r.output
			if o.queryPrefer != "" {
				// any model is a counterexample: ask for one the replay harness can build
				fp := filepath.Join(sp.Dir, fmt.Sprintf("q%06d.prefer.smt2", id))
				os.WriteFile(fp, []byte(o.queryPrefer), 0o644)
				ctxp, cancelp := context.WithTimeout(context.Background(), 8*time.Second)
				rp := runSolver(ctxp, solverDefs(6)[0], fp)
				cancelp()
				os.Remove(fp)
				if rp.answer == "sat" {
					o.Model = rp.output
				}
			}
		default:
			o.Status = "unknown"
			o.Model = r.output
			if o.queryQF != "" {
				fq := filepath.Join(sp.Dir, fmt.Sprintf("q%06d.qf.smt2", id))
				os.WriteFile(fq, []byte(o.queryQF), 0o644)
				ctxq, cancelq := context.WithTimeout(context.Background(), 8*time.Second)
				rq := runSolver(ctxq, solverDefs(6)[0], fq)
				cancelq()
				os.Remove(fq)
				if rq.answer == "sat" {
					o.Model = rq.output
					o.Candidate = true
				}
			}
		}
		sp.mu.Lock()
		st := sp.Stats[r.solver]
		if st == nil {
			st = &SolverStat{}
			sp.Stats[r.solver] = st
		}
		st.Won++
		st.Secs += r.secs
		sp.mu.Unlock()
	}
	// stage 1: quick attempt with z3-new
	short := 2.0
	if timeout < short {
		short = timeout
	}
	ctx1, cancel1 := context.WithTimeout(context.Background(), time.Duration((short+1)*float64(time.Second)))
	r := runSolver(ctx1, solverDefs(short)[0], fz)
	cancel1()
	if r.answer != "unknown" && !(sp.TwoSolver && !fast) {
		finish(r, "")
		return
	}
	if fast && r.answer == "unknown" && timeout <= short {
		finish(r, "")
		return
	}
	// stage 2: race all three
	fc := filepath.Join(sp.Dir, fmt.Sprintf("q%06d.cvc5.smt2", id))
	os.WriteFile(fc, []byte(mkq(true)), 0o644)
	defer os.Remove(fc)
	ctx, cancel := context.WithTimeout(context.Background(), time.Duration((timeout+2)*float64(time.Second)))
	defer cancel()
	ch := make(chan solveOut, len(defs))
	for _, d := range defs {
		d := d
		f := fz
		if d.CVC5 {
			f = fc
		}
		go func() { ch <- runSolver(ctx, d, f) }()
	}
	var answers []solveOut
	need := 1
	if sp.TwoSolver && !fast {
		need = 2
	}
	if r.answer != "unknown" {
		// stage-1 answer counts as z3-new's
	}
	var last solveOut
	for k := 0; k < len(defs); k++ {
		x := <-ch
		last = x
		if x.answer == "unknown" {
			continue
		}
		// answers must agree
		for _, a := range answers {
			if a.answer != x.answer {
				o.Status, o.Solver = "unknown", fmt.Sprintf("solvers disagree: %s=%s %s=%s", a.solver, a.answer, x.solver, x.answer)
				return
			}
		}
		answers = append(answers, x)
		if len(answers) >= need {
			break
		}
	}
	cancel()
	switch {
	case len(answers) >= need && need == 2:
		finish(answers[0], answers[1].solver)
	case len(answers) >= 1 && need == 1:
		finish(answers[0], "")
	case len(answers) == 1 && need == 2:
		// only one solver decided it: counted, but flagged
		finish(answers[0], "")
		o.Solver += " (single solver)"
	default:
		finish(last, "")
		o.Status = "unknown"
	}
}

// Discharge runs all obligations in parallel. Trivial goals are settled by the term simplifier.
func (sp *SolverPool) Discharge(ts *TermStore, obls []*Obligation, timeout float64, fast bool) {
	var wg sync.WaitGroup
	sem := make(chan struct{}, sp.Parallel)
	for _, o := range obls {
		if !o.WantSat && (isTrue(o.Goal) || isFalse(o.Hyp)) {
			o.Status, o.Solver = "proved", "govc-simplifier"
			continue
		}
		// queries are rendered here, sequentially: the term store is not safe for concurrent use
		asserts := []*Term{o.Hyp}
		comments := []string{"path condition / hypotheses"}
		if o.WantSat {
			// vacuity guard: satisfiability of the quantifier-free part of the hypotheses (a weaker formula:
			// UNSAT here proves vacuity, SAT is the expected answer)
			asserts = []*Term{ts.dropQuantified(o.Hyp)}
			comments = []string{"quantifier-free part of the hypotheses (cover: must be sat)"}
		} else {
			asserts = append(asserts, ts.Not(o.Goal))
			comments = append(comments, "negated goal: "+o.Desc)
		}
		o.Query = ts.Query(asserts, QueryOpts{Comments: comments, GetValues: o.Vals, NoQuantAxioms: o.WantSat})
		o.queryCVC = ts.Query(asserts, QueryOpts{CVC5: true, Comments: comments, GetValues: o.Vals, NoQuantAxioms: o.WantSat})
		if len(o.Vals) > 0 && !o.WantSat {
			// candidate counterexample when the full query stays undecided: quantified hypotheses dropped
			// (a weaker hypothesis set, so the model may be spurious: it counts only if it replays on the real code)
			qa := []*Term{ts.dropQuantified(o.Hyp), ts.Not(o.Goal)}
			qa = append(qa, o.Prefer...)
			o.queryQF = ts.Query(qa, QueryOpts{Comments: []string{"quantifier-free part of the hypotheses", "negated goal"}, GetValues: o.Vals, NoQuantAxioms: true})
		}
		if len(o.Prefer) > 0 && !o.WantSat {
			pa := append(append([]*Term{}, asserts...), o.Prefer...)
			o.queryPrefer = ts.Query(pa, QueryOpts{Comments: append(comments, "replay-friendly model preference"), GetValues: o.Vals})
		}
		o := o
		wg.Add(1)
		sem <- struct{}{}
		go func() {
			defer wg.Done()
			defer func() { <-sem }()
			sp.solveOne(ts, o, timeout, fast)
		}()
	}
	wg.Wait()
	// consistency covers: UNSAT after the call is fine when the path was infeasible before the call already
	for _, o := range obls {
		if o.WantSat && o.PreHyp != nil && o.Status == "failed" {
			pre := &Obligation{Fn: o.Fn, Kind: "cover", Hyp: o.PreHyp, Goal: ts.True(), WantSat: true}
			pre.Query = ts.Query([]*Term{ts.dropQuantified(pre.Hyp)}, QueryOpts{NoQuantAxioms: true})
			pre.queryCVC = ts.Query([]*Term{ts.dropQuantified(pre.Hyp)}, QueryOpts{CVC5: true, NoQuantAxioms: true})
			sp.solveOne(ts, pre, timeout, fast)
			if pre.Status == "failed" {
				o.Status, o.Solver = "proved", o.Solver+" (path infeasible before the call)"
			}
		}
	}
	// an `unknown` that came back at once is suspicious (a solver that could not run): once more, one by one
	for _, o := range obls {
		if o.Status == "unknown" && o.Secs < 1.0 && o.Query != "" {
			sp.solveOne(ts, o, timeout, fast)
		}
	}
}

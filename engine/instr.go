package main

import (
	"fmt"
	"go/token"
	"go/types"
	"math/big"
	"sort"
	"strings"

	"golang.org/x/tools/go/ssa"
)

func (X *Exec) execInstr(fr *Frame, ins ssa.Instruction, st *State) {
	ts := X.E.TS
	defer func() {
		if r := recover(); r != nil {
			if _, ok := r.(abortFn); ok {
				panic(r)
			}
			panic(abortFn{fmt.Sprintf("%s: %s: %v", X.pos(ins.Pos()), ins, r)})
		}
	}()
	switch i := ins.(type) {
	case *ssa.DebugRef:
		return
	case *ssa.Alloc:
		X.execAlloc(fr, i, st)
	case *ssa.Store:
		addr := X.addrOf(fr, st, X.val(fr, i.Addr), i.Pos(), "store to "+i.Addr.Name())
		v := X.val(fr, i.Val)
		X.checkGuarded(fr, st, addr, true, i.Pos())
		if addr.Kind == AddrCell && len(addr.Path) == 0 {
			// a pointer variable holding a Go-side address keeps it (parameters are spilled to cells in NaiveForm)
			if v.T == nil && v.A != nil {
				if st.CellAddr == nil {
					st.CellAddr = map[*Cell]*Addr{}
				}
				st.CellAddr[addr.Cell] = v.A
				st.Cells[addr.Cell] = X.zero(addr.Cell.Type)
				return
			}
			delete(st.CellAddr, addr.Cell)
		}
		X.applyStoreHooks(fr, st, i, addr, v) // before the store: the field still has its old value
		X.store(st, addr, X.asTerm(st, v, deref(i.Addr.Type())))
		if v.Clo != nil && v.T != nil {
			st.Clos[v.T] = v.Clo
		}
	case *ssa.UnOp:
		X.execUnOp(fr, i, st)
	case *ssa.BinOp:
		fr.Regs[i] = X.execBinOp(fr, i, st)
	case *ssa.FieldAddr:
		base := X.addrOf(fr, st, X.val(fr, i.X), i.Pos(), "field "+fieldName(i))
		na := *base
		na.Path = append(append([]PathElem{}, base.Path...), PathElem{Field: i.Field})
		na.T = deref(i.Type())
		fr.Regs[i] = &Val{A: &na, GT: i.Type()}
	case *ssa.Field:
		x := X.val(fr, i.X)
		fr.Regs[i] = &Val{T: ts.Sel(x.T, i.Field), GT: i.Type()}
	case *ssa.IndexAddr:
		X.execIndexAddr(fr, i, st)
	case *ssa.Index:
		x := X.val(fr, i.X)
		idx := X.val(fr, i.Index).T
		switch u := i.X.Type().Underlying().(type) {
		case *types.Array:
			X.oblige(st, "bounds", "", fmt.Sprintf("index in range of [%d]: %s[%s]", u.Len(), i.X.Name(), i.Index.Name()), i.Pos(),
				ts.And(ts.Le(ts.IntLit(0), idx), ts.Lt(idx, ts.IntLit(u.Len()))))
			fr.Regs[i] = &Val{T: ts.Select(x.T, idx), GT: i.Type()}
		default:
			// string index via Index (generic code); handled like Lookup
			X.oblige(st, "bounds", "", "string index in range", i.Pos(), ts.And(ts.Le(ts.IntLit(0), idx), ts.Lt(idx, X.E.StrLen(x.T))))
			fr.Regs[i] = &Val{T: X.E.StrAt(x.T, idx), GT: i.Type()}
		}
	case *ssa.Lookup:
		X.execLookup(fr, i, st)
	case *ssa.MapUpdate:
		m := X.val(fr, i.Map)
		mt := i.Map.Type().Underlying().(*types.Map)
		X.oblige(st, "nil", "", "assignment to entry in nil map "+i.Map.Name(), i.Pos(), ts.Not(ts.Eq(m.T, ts.IntLit(0))))
		X.applyUpdateHooks(fr, st, i, m)
		X.checkGuardedMapWrite(fr, st, i.Map, i.Pos())
		X.mapStore(st, mt, m.T, X.asTerm(st, X.val(fr, i.Key), mt.Key()), X.asTerm(st, X.val(fr, i.Value), mt.Elem()))
	case *ssa.Slice:
		X.execSlice(fr, i, st)
	case *ssa.MakeSlice:
		ln, cp := X.val(fr, i.Len).T, X.val(fr, i.Cap).T
		X.oblige(st, "bounds", "", "make: len out of range (negative or above cap): "+i.Len.Name(), i.Pos(), ts.And(ts.Le(ts.IntLit(0), ln), ts.Le(ln, cp)))
		el := i.Type().Underlying().(*types.Slice).Elem()
		arr := X.newRef(st, "mkslice")
		n, s := X.E.ElemHeap(el)
		X.setHeap(st, n, s, ts.Store(X.heap(st, n, s), arr, ts.ConstArray(s.Elem, X.zero(el))))
		X.noteAlloc(st, cp, el, i.Pos())
		fr.Regs[i] = &Val{T: ts.Ctor(X.E.SliceS, arr, ts.IntLit(0), ln, cp), GT: i.Type()}
	case *ssa.MakeMap:
		mt := i.Type().Underlying().(*types.Map)
		r := X.newRef(st, "mkmap")
		pn, vn, ln, ps, _ := X.E.MapHeaps(mt)
		_ = vn
		X.setHeap(st, pn, ps, ts.Store(X.heap(st, pn, ps), r, ts.ConstArray(ps.Elem, ts.False())))
		ls := ArraySort(SInt, SInt)
		X.setHeap(st, ln, ls, ts.Store(X.heap(st, ln, ls), r, ts.IntLit(0)))
		fr.Regs[i] = &Val{T: r, GT: i.Type()}
	case *ssa.MakeChan:
		ch := X.newRef(st, "mkchan")
		cs := ArraySort(SInt, SInt)
		X.setHeap(st, "GM|chancap", cs, ts.Store(X.heap(st, "GM|chancap", cs), ch, X.val(fr, i.Size).T))
		fr.Regs[i] = &Val{T: ch, GT: i.Type()}
	case *ssa.MakeInterface:
		v := X.val(fr, i.X)
		var t *Term
		if v.T == nil && v.A != nil {
			t = X.ptrTerm(st, v, "make interface")
		} else {
			t = v.T
		}
		fr.Regs[i] = &Val{T: X.E.Box(t, i.X.Type()), GT: i.Type(), Clo: v.Clo}
	case *ssa.MakeClosure:
		fn := i.Fn.(*ssa.Function)
		var bs []*Val
		for _, b := range i.Bindings {
			bs = append(bs, X.val(fr, b))
		}
		f := ts.Fresh("closure", SInt)
		st.assume(ts, ts.Lt(ts.IntLit(0), f))
		clo := &Closure{Fn: fn, Bindings: bs}
		st.Clos[f] = clo
		fr.Regs[i] = &Val{T: f, GT: i.Type(), Clo: clo}
	case *ssa.ChangeType:
		v := X.val(fr, i.X)
		nv := *v
		nv.GT = i.Type()
		fr.Regs[i] = &nv
	case *ssa.ChangeInterface:
		v := X.val(fr, i.X)
		nv := *v
		nv.GT = i.Type()
		fr.Regs[i] = &nv
	case *ssa.Convert:
		fr.Regs[i] = X.execConvert(fr, i, st)
	case *ssa.Phi:
		var res *Term
		for k := len(i.Edges) - 1; k >= 0; k-- {
			pred := i.Block().Preds[k]
			pc := fr.edgePC[[2]int{pred.Index, i.Block().Index}]
			if pc == nil {
				continue // edge never taken
			}
			v := X.val(fr, i.Edges[k]).T
			if res == nil {
				res = v
			} else {
				res = ts.Ite(pc, v, res)
			}
		}
		fr.Regs[i] = &Val{T: res, GT: i.Type()}
	case *ssa.Extract:
		t := X.val(fr, i.Tuple)
		fr.Regs[i] = t.Tuple[i.Index]
	case *ssa.TypeAssert:
		X.execTypeAssert(fr, i, st)
	case *ssa.Call:
		res := X.execCall(fr, i, &i.Call, st, "call")
		if res != nil {
			fr.Regs[i] = res
		}
	case *ssa.Go:
		X.execGo(fr, i, st)
	case *ssa.Defer:
		X.execDefer(fr, i, st)
	case *ssa.RunDefers:
		X.execRunDefers(fr, i, st)
	case *ssa.Send:
		// channel send: no effect on the modelled state; in lock mode a send that can block (not a case of a select)
		// must not be made with a mutex held - whoever is to receive may need that mutex
		if X.LockMode {
			X.noLockAcrossCallback(fr, st, "a blocking channel send on "+srcName(i.Chan), i.Pos())
		}
	case *ssa.Select:
		X.execSelect(fr, i, st)
	case *ssa.Range:
		X.execRange(fr, i, st)
	case *ssa.Next:
		X.execNext(fr, i, st)
	default:
		// unsupported: result is an arbitrary value of its type
		if v, ok := ins.(ssa.Value); ok {
			X.E.warn("%s: unsupported instruction %T abstracted to an arbitrary value", X.E.P.Keys[fr.Fn], ins)
			fr.Regs[v] = X.freshVal(st, v.Type(), "unsup")
		} else {
			X.E.warn("%s: unsupported instruction %T ignored", X.E.P.Keys[fr.Fn], ins)
		}
	}
}

type abortFn struct{ msg string }

func deref(t types.Type) types.Type {
	if p, ok := t.Underlying().(*types.Pointer); ok {
		return p.Elem()
	}
	return t
}

func fieldName(i *ssa.FieldAddr) string {
	st := structOf(deref(i.X.Type()))
	if st == nil {
		return "?"
	}
	return st.Field(i.Field).Name()
}

// asTerm: the first-class term of a value to be stored somewhere of type T.
func (X *Exec) asTerm(st *State, v *Val, T types.Type) *Term {
	if v.T != nil {
		return v.T
	}
	if v.A != nil {
		return X.ptrTerm(st, v, "stored")
	}
	if v.Tuple != nil {
		panic("asTerm of tuple")
	}
	return X.freshOfType(st, T, "nov")
}

func (X *Exec) freshVal(st *State, T types.Type, hint string) *Val {
	if tup, ok := T.(*types.Tuple); ok {
		v := &Val{GT: T}
		for k := 0; k < tup.Len(); k++ {
			v.Tuple = append(v.Tuple, X.freshVal(st, tup.At(k).Type(), fmt.Sprintf("%s.%d", hint, k)))
		}
		return v
	}
	return &Val{T: X.freshOfType(st, T, hint), GT: T}
}

func (X *Exec) execAlloc(fr *Frame, i *ssa.Alloc, st *State) {
	ts := X.E.TS
	T := deref(i.Type())
	if at, ok := T.Underlying().(*types.Array); ok {
		// arrays always live in the element heap, the pointer is the backing-array id
		r := X.newRef(st, "arr."+i.Comment)
		n, s := X.E.ElemHeap(at.Elem())
		X.setHeap(st, n, s, ts.Store(X.heap(st, n, s), r, ts.ConstArray(s.Elem, X.zero(at.Elem()))))
		fr.Regs[i] = &Val{T: r, GT: i.Type()}
		return
	}
	if !i.Heap {
		X.cellSeq++
		c := &Cell{ID: X.cellSeq, Name: i.Comment, Type: T, Alloc: i}
		fr.Cells[i] = c
		st.Cells[c] = X.zero(T)
		fr.Regs[i] = &Val{A: &Addr{Kind: AddrCell, Cell: c, T: T}, GT: i.Type()}
		return
	}
	r := X.newRef(st, "new."+i.Comment)
	a := &Addr{Kind: AddrObj, Ref: r, ObjT: T, T: T}
	X.store(st, a, X.zero(T))
	fr.Regs[i] = &Val{T: r, GT: i.Type()}
	if sT := structOf(T); sT != nil && unpublishedStruct(i) {
		// an object that nobody else can reach until this function returns it: unknown calls cannot change it
		for k := 0; k < sT.NumFields(); k++ {
			n, s := X.E.FieldHeap(T, k)
			st.Stable = append(st.Stable, stableRec{Heap: n, Sort: s, Ref: r, Alloc: i, Unpublished: true})
		}
	}
	if sT := structOf(T); sT != nil && ownedCell(i) {
		// a struct-valued local that closures only read (whole-value loads and stores only)
		for k := 0; k < sT.NumFields(); k++ {
			n, s := X.E.FieldHeap(T, k)
			st.Stable = append(st.Stable, stableRec{Heap: n, Sort: s, Ref: r, Alloc: i})
		}
	}
	if structOf(T) == nil && ownedCell(i) {
		// a local that lives on the heap only because closures READ it: nothing but this function's own
		// assignments changes it, so it survives havoc-everything events
		n, s := X.E.CellHeap(T)
		st.Stable = append(st.Stable, stableRec{Heap: n, Sort: s, Ref: r, Alloc: i})
	}
}

// ownedCell: every use of the heap-allocated local is a load, a store INTO it, or a capture by a closure that never
// assigns to it (directly or through nested closures).
var ownedCache = map[*ssa.Alloc]bool{}

func ownedCell(a *ssa.Alloc) bool {
	if v, ok := ownedCache[a]; ok {
		return v
	}
	ok := ownedValue(a, 0)
	ownedCache[a] = ok
	return ok
}

// unpublishedStruct: the only uses of the freshly allocated struct are stores into / loads from its fields and
// returning it, so until the function returns no other code holds a reference to it.
var unpublishedCache = map[*ssa.Alloc]bool{}

func unpublishedStruct(a *ssa.Alloc) bool {
	if v, ok := unpublishedCache[a]; ok {
		return v
	}
	tracked := map[ssa.Value]bool{}
	var usesOK func(v ssa.Value) bool
	usesOK = func(v ssa.Value) bool {
		if tracked[v] {
			return true
		}
		tracked[v] = true
		if v.Referrers() == nil {
			return false
		}
		for _, ref := range *v.Referrers() {
			switch r := ref.(type) {
			case *ssa.DebugRef, *ssa.Return:
			case *ssa.FieldAddr:
				if r.Referrers() == nil {
					return false
				}
				for _, fr := range *r.Referrers() {
					switch u := fr.(type) {
					case *ssa.DebugRef:
					case *ssa.Store:
						if u.Addr != r {
							return false
						}
					case *ssa.UnOp:
						if u.Op != token.MUL {
							return false
						}
					default:
						return false
					}
				}
			case *ssa.Store:
				// the pointer may be kept in a plain local variable (naive form spills every local)
				l, isLocal := r.Addr.(*ssa.Alloc)
				if r.Val != v || !isLocal || l.Heap || l.Referrers() == nil {
					return false
				}
				for _, lr := range *l.Referrers() {
					switch u := lr.(type) {
					case *ssa.DebugRef:
					case *ssa.Store:
						if u.Addr != l {
							return false
						}
					case *ssa.UnOp:
						if u.Op != token.MUL || !usesOK(u) {
							return false
						}
					default:
						return false
					}
				}
			default:
				return false
			}
		}
		return true
	}
	ok := usesOK(a)
	if ok {
		// no tracked pointer is stored INTO a field (that would publish it through the object itself: harmless, but
		// keep the rule simple) - checked here because the tracked set is complete only now
		for v := range tracked {
			for _, ref := range *v.Referrers() {
				if fa, isFA := ref.(*ssa.FieldAddr); isFA {
					for _, fr := range *fa.Referrers() {
						if u, isSt := fr.(*ssa.Store); isSt && tracked[u.Val] {
							ok = false
						}
					}
				}
			}
		}
	}
	unpublishedCache[a] = ok
	return ok
}

func ownedValue(v ssa.Value, depth int) bool {
	if depth > 4 || v.Referrers() == nil {
		return false
	}
	for _, ref := range *v.Referrers() {
		switch r := ref.(type) {
		case *ssa.DebugRef:
		case *ssa.UnOp:
			if r.Op != token.MUL {
				return false
			}
		case *ssa.Store:
			if r.Addr != v || r.Val == v {
				return false
			}
			if depth > 0 {
				return false // a closure assigns to the captured variable
			}
		case *ssa.MakeClosure:
			fn, _ := r.Fn.(*ssa.Function)
			if fn == nil {
				return false
			}
			for k, b := range r.Bindings {
				if b == v {
					if k >= len(fn.FreeVars) || !ownedValue(fn.FreeVars[k], depth+1) {
						return false
					}
				}
			}
		default:
			return false
		}
	}
	return true
}

func (X *Exec) execUnOp(fr *Frame, i *ssa.UnOp, st *State) {
	ts := X.E.TS
	x := X.val(fr, i.X)
	switch i.Op {
	case token.MUL:
		if x.A != nil && x.A.Kind == AddrCell && len(x.A.Path) == 0 {
			if a, ok := st.CellAddr[x.A.Cell]; ok {
				fr.Regs[i] = &Val{A: a, GT: i.Type()}
				return
			}
		}
		addr := X.addrOf(fr, st, x, i.Pos(), "load "+i.X.Name())
		X.checkGuarded(fr, st, addr, false, i.Pos())
		t := X.load(st, addr)
		X.assumeValid(st, t, i.Type(), 1)
		v := &Val{T: t, GT: i.Type()}
		if c, ok := st.Clos[t]; ok {
			v.Clo = c
		}
		fr.Regs[i] = v
	case token.NOT:
		fr.Regs[i] = &Val{T: ts.Not(x.T), GT: i.Type()}
	case token.SUB:
		if x.T.Sort.BV != 0 {
			fr.Regs[i] = &Val{T: ts.Raw("bvneg", x.T.Sort, x.T), GT: i.Type()}
			return
		}
		if x.T.Sort.FP != 0 {
			fr.Regs[i] = &Val{T: ts.Raw("fp.neg", x.T.Sort, x.T), GT: i.Type()}
			return
		}
		if x.T.Sort == SReal {
			fr.Regs[i] = &Val{T: ts.Raw("-", SReal, x.T), GT: i.Type()}
			return
		}
		fr.Regs[i] = &Val{T: X.E.wrapIfNarrow(ts.Neg(x.T), i.Type()), GT: i.Type()}
	case token.ARROW:
		el := i.X.Type().Underlying().(*types.Chan).Elem()
		v := X.freshVal(st, el, "recv")
		if i.CommaOk {
			fr.Regs[i] = &Val{Tuple: []*Val{v, {T: ts.Fresh("recvok", SBool), GT: types.Typ[types.Bool]}}, GT: i.Type()}
		} else {
			fr.Regs[i] = v
		}
	case token.XOR:
		// bitwise complement: -x-1 for signed, max-x for unsigned
		lo, hi, _ := intRange(i.Type())
		if lo != nil && lo.Sign() == 0 {
			fr.Regs[i] = &Val{T: ts.Sub(ts.BigLit(hi), x.T), GT: i.Type()}
		} else {
			fr.Regs[i] = &Val{T: ts.Sub(ts.Neg(x.T), ts.IntLit(1)), GT: i.Type()}
		}
	default:
		panic("unop " + i.Op.String())
	}
}

func (E *Env) wrapIfNarrow(x *Term, T types.Type) *Term {
	bits, _ := intBits(T)
	if bits > 0 && bits < 64 {
		return E.wrap(x, T)
	}
	return x
}

func (X *Exec) execIndexAddr(fr *Frame, i *ssa.IndexAddr, st *State) {
	ts := X.E.TS
	x := X.val(fr, i.X)
	idx := X.val(fr, i.Index).T
	switch u := i.X.Type().Underlying().(type) {
	case *types.Slice:
		ln := ts.Sel(x.T, 2)
		X.oblige(st, "bounds", "", fmt.Sprintf("index in range: %s[%s]", srcName(i.X), srcName(i.Index)), i.Pos(), ts.And(ts.Le(ts.IntLit(0), idx), ts.Lt(idx, ln)))
		fr.Regs[i] = &Val{A: &Addr{Kind: AddrElem, Arr: ts.Sel(x.T, 0), Idx: X.E.ElemIdx(ts.Sel(x.T, 1), idx), ObjT: u.Elem(), T: u.Elem()}, GT: i.Type()}
	case *types.Pointer:
		at := u.Elem().Underlying().(*types.Array)
		X.oblige(st, "bounds", "", fmt.Sprintf("index in range of [%d]: %s[%s]", at.Len(), srcName(i.X), srcName(i.Index)), i.Pos(), ts.And(ts.Le(ts.IntLit(0), idx), ts.Lt(idx, ts.IntLit(at.Len()))))
		if x.A != nil {
			// array value inside a cell / field
			na := *x.A
			na.Path = append(append([]PathElem{}, x.A.Path...), PathElem{Field: -1, Index: idx})
			na.T = at.Elem()
			fr.Regs[i] = &Val{A: &na, GT: i.Type()}
			return
		}
		X.oblige(st, "nil", "", "nil array pointer "+i.X.Name(), i.Pos(), ts.Not(ts.Eq(x.T, ts.IntLit(0))))
		fr.Regs[i] = &Val{A: &Addr{Kind: AddrElem, Arr: x.T, Idx: idx, ObjT: at.Elem(), T: at.Elem()}, GT: i.Type()}
	default:
		panic("indexaddr on " + typeKey(i.X.Type()))
	}
}

// srcName: a readable name for a value (source variable if it is a load of a named local).
func srcName(v ssa.Value) string {
	switch x := v.(type) {
	case *ssa.UnOp:
		if x.Op == token.MUL {
			if a, ok := x.X.(*ssa.Alloc); ok && a.Comment != "" {
				return a.Comment
			}
			if f, ok := x.X.(*ssa.FieldAddr); ok {
				return srcName(f.X) + "." + fieldName(f)
			}
			if f, ok := x.X.(*ssa.IndexAddr); ok {
				return srcName(f.X) + "[" + srcName(f.Index) + "]"
			}
			if f, ok := x.X.(*ssa.FreeVar); ok {
				return f.Name()
			}
			if g, ok := x.X.(*ssa.Global); ok {
				return g.Name()
			}
			if u, ok := x.X.(*ssa.UnOp); ok && u.Op == token.MUL {
				return "*" + srcName(u)
			}
		}
	case *ssa.Const:
		if x.Value != nil {
			return x.Value.String()
		}
		return "nil"
	case *ssa.Parameter:
		return x.Name()
	case *ssa.BinOp:
		return srcName(x.X) + x.Op.String() + srcName(x.Y)
	case *ssa.Call:
		if b, ok := x.Call.Value.(*ssa.Builtin); ok && len(x.Call.Args) == 1 {
			return b.Name() + "(" + srcName(x.Call.Args[0]) + ")"
		}
	case *ssa.Slice:
		s := srcName(x.X) + "["
		if x.Low != nil {
			s += srcName(x.Low)
		}
		s += ":"
		if x.High != nil {
			s += srcName(x.High)
		}
		return s + "]"
	case *ssa.Convert:
		return srcName(x.X)
	case *ssa.Alloc:
		if x.Comment != "" {
			return "&" + x.Comment
		}
	case *ssa.Extract:
		return srcName(x.Tuple) + "#" + fmt.Sprint(x.Index)
	}
	return v.Name()
}

func (X *Exec) execLookup(fr *Frame, i *ssa.Lookup, st *State) {
	ts := X.E.TS
	x := X.val(fr, i.X)
	idx := X.val(fr, i.Index)
	if mt, ok := i.X.Type().Underlying().(*types.Map); ok {
		k := X.asTerm(st, idx, mt.Key())
		present, v := X.mapLoad(st, mt, x.T, k)
		X.assumeValid(st, v, mt.Elem(), 1)
		vv := &Val{T: v, GT: mt.Elem()}
		if c, ok := st.Clos[v]; ok {
			vv.Clo = c
		}
		if i.CommaOk {
			fr.Regs[i] = &Val{Tuple: []*Val{vv, {T: present, GT: types.Typ[types.Bool]}}, GT: i.Type()}
		} else {
			fr.Regs[i] = vv
		}
		return
	}
	// string
	X.oblige(st, "bounds", "", fmt.Sprintf("string index in range: %s[%s]", srcName(i.X), srcName(i.Index)), i.Pos(), ts.And(ts.Le(ts.IntLit(0), idx.T), ts.Lt(idx.T, X.E.StrLen(x.T))))
	fr.Regs[i] = &Val{T: X.E.StrAt(x.T, idx.T), GT: i.Type()}
}

func (X *Exec) mapLoad(st *State, mt *types.Map, m, k *Term) (present, v *Term) {
	ts := X.E.TS
	pn, vn, _, ps, vs := X.E.MapHeaps(mt)
	p := ts.Select(ts.Select(X.heap(st, pn, ps), m), k)
	present = ts.And(ts.Not(ts.Eq(m, ts.IntLit(0))), p)
	v = ts.Ite(present, ts.Select(ts.Select(X.heap(st, vn, vs), m), k), X.zero(mt.Elem()))
	return
}

func (X *Exec) mapLen(st *State, mt *types.Map, m *Term) *Term {
	ts := X.E.TS
	_, _, ln, _, _ := X.E.MapHeaps(mt)
	ls := ArraySort(SInt, SInt)
	l := ts.Select(X.heap(st, ln, ls), m)
	st.assume(ts, ts.Le(ts.IntLit(0), l))
	return ts.Ite(ts.Eq(m, ts.IntLit(0)), ts.IntLit(0), l)
}

func (X *Exec) mapStore(st *State, mt *types.Map, m, k, v *Term) {
	ts := X.E.TS
	pn, vn, ln, ps, vs := X.E.MapHeaps(mt)
	ph, vh := X.heap(st, pn, ps), X.heap(st, vn, vs)
	was := ts.Select(ts.Select(ph, m), k)
	X.setHeap(st, pn, ps, ts.Store(ph, m, ts.Store(ts.Select(ph, m), k, ts.True())))
	X.setHeap(st, vn, vs, ts.Store(vh, m, ts.Store(ts.Select(vh, m), k, v)))
	ls := ArraySort(SInt, SInt)
	lh := X.heap(st, ln, ls)
	X.setHeap(st, ln, ls, ts.Store(lh, m, ts.Add(ts.Select(lh, m), ts.Ite(was, ts.IntLit(0), ts.IntLit(1)))))
}

func (X *Exec) mapDelete(st *State, mt *types.Map, m, k *Term) {
	ts := X.E.TS
	pn, _, ln, ps, _ := X.E.MapHeaps(mt)
	ph := X.heap(st, pn, ps)
	was := ts.And(ts.Not(ts.Eq(m, ts.IntLit(0))), ts.Select(ts.Select(ph, m), k))
	nh := ts.Store(ph, m, ts.Store(ts.Select(ph, m), k, ts.False()))
	X.setHeap(st, pn, ps, ts.Ite(ts.Eq(m, ts.IntLit(0)), ph, nh))
	ls := ArraySort(SInt, SInt)
	lh := X.heap(st, ln, ls)
	X.setHeap(st, ln, ls, ts.Store(lh, m, ts.Sub(ts.Select(lh, m), ts.Ite(was, ts.IntLit(1), ts.IntLit(0)))))
}

func (X *Exec) execSlice(fr *Frame, i *ssa.Slice, st *State) {
	ts := X.E.TS
	x := X.val(fr, i.X)
	z := ts.IntLit(0)
	var lo, hi, mx *Term
	if i.Low != nil {
		lo = X.val(fr, i.Low).T
	} else {
		lo = z
	}
	if i.High != nil {
		hi = X.val(fr, i.High).T
	}
	if i.Max != nil {
		mx = X.val(fr, i.Max).T
	}
	desc := "slice bounds in range: " + srcName(i)
	switch u := i.X.Type().Underlying().(type) {
	case *types.Slice:
		arr, off, ln, cp := ts.Sel(x.T, 0), ts.Sel(x.T, 1), ts.Sel(x.T, 2), ts.Sel(x.T, 3)
		if hi == nil {
			hi = ln
		}
		top := cp
		if mx != nil {
			X.oblige(st, "bounds", "", desc, i.Pos(), ts.And(ts.Le(z, lo), ts.Le(lo, hi), ts.Le(hi, mx), ts.Le(mx, cp)))
			top = mx
		} else {
			X.oblige(st, "bounds", "", desc, i.Pos(), ts.And(ts.Le(z, lo), ts.Le(lo, hi), ts.Le(hi, cp)))
		}
		fr.Regs[i] = &Val{T: ts.Ctor(X.E.SliceS, arr, ts.Add(off, lo), ts.Sub(hi, lo), ts.Sub(top, lo)), GT: i.Type()}
	case *types.Basic: // string
		ln := X.E.StrLen(x.T)
		if hi == nil {
			hi = ln
		}
		X.oblige(st, "bounds", "", desc, i.Pos(), ts.And(ts.Le(z, lo), ts.Le(lo, hi), ts.Le(hi, ln)))
		fr.Regs[i] = &Val{T: X.E.StrSub(x.T, lo, hi), GT: i.Type()}
	case *types.Pointer:
		at := u.Elem().Underlying().(*types.Array)
		n := ts.IntLit(at.Len())
		if hi == nil {
			hi = n
		}
		top := n
		if mx != nil {
			top = mx
			X.oblige(st, "bounds", "", desc, i.Pos(), ts.And(ts.Le(z, lo), ts.Le(lo, hi), ts.Le(hi, mx), ts.Le(mx, n)))
		} else {
			X.oblige(st, "bounds", "", desc, i.Pos(), ts.And(ts.Le(z, lo), ts.Le(lo, hi), ts.Le(hi, n)))
		}
		if x.T == nil {
			panic("slice of array held by value in a cell")
		}
		fr.Regs[i] = &Val{T: ts.Ctor(X.E.SliceS, x.T, lo, ts.Sub(hi, lo), ts.Sub(top, lo)), GT: i.Type()}
	default:
		panic("slice of " + typeKey(i.X.Type()))
	}
}

// StrSub: substring as an uninterpreted function with defining axioms.
func (E *Env) StrSub(s, lo, hi *Term) *Term {
	ts := E.TS
	ts.AddAxiomOnce("str.sub", func() *Term {
		ts.DeclareFunc("str.sub", []*Sort{SStr, SInt, SInt}, SStr)
		x := ts.BoundVar("s", SStr)
		a := ts.BoundVar("lo", SInt)
		b := ts.BoundVar("hi", SInt)
		k := ts.BoundVar("k", SInt)
		sub := ts.App("str.sub", SStr, x, a, b)
		ax1 := ts.Forall([]*Term{x, a, b}, ts.Implies(ts.And(ts.Le(ts.IntLit(0), a), ts.Le(a, b)), ts.Eq(E.StrLen(sub), ts.Sub(b, a))), []*Term{sub})
		ax2 := ts.Forall([]*Term{x, a, b, k}, ts.Implies(ts.And(ts.Le(ts.IntLit(0), k), ts.Lt(k, ts.Sub(b, a))), ts.Eq(E.StrAt(sub, k), E.StrAt(x, ts.Add(a, k)))), []*Term{E.StrAt(sub, k)})
		return ts.And(ax1, ax2)
	})
	return ts.App("str.sub", SStr, s, lo, hi)
}

func (X *Exec) execTypeAssert(fr *Frame, i *ssa.TypeAssert, st *State) {
	ts := X.E.TS
	x := X.val(fr, i.X)
	boolT := types.Typ[types.Bool]
	if _, isIface := i.AssertedType.Underlying().(*types.Interface); isIface {
		// to an interface type: succeeds or not depending on the dynamic type; unknown here
		// (decided by go/types for the concrete types known by name)
		ok := ts.And(ts.Not(ts.Eq(x.T, X.E.IfaceNil())), X.E.Implements(X.E.IfaceTag(x.T), i.AssertedType))
		if i.CommaOk {
			res := ts.Ite(ok, x.T, X.E.IfaceNil())
			fr.Regs[i] = &Val{Tuple: []*Val{{T: res, GT: i.AssertedType}, {T: ok, GT: boolT}}, GT: i.Type()}
			return
		}
		X.oblige(st, "typeassert", "", "interface conversion succeeds: "+srcName(i.X)+".("+typeKey(i.AssertedType)+")", i.Pos(), ok)
		fr.Regs[i] = &Val{T: x.T, GT: i.AssertedType}
		return
	}
	id := ts.IntLit(int64(X.E.TypeID(i.AssertedType)))
	ok := ts.Eq(X.E.IfaceTag(x.T), id)
	ub := X.E.Unbox(x.T, i.AssertedType)
	if i.CommaOk {
		v := ts.Ite(ok, ub, X.zero(i.AssertedType))
		X.assumeValid(st, v, i.AssertedType, 1)
		fr.Regs[i] = &Val{Tuple: []*Val{{T: v, GT: i.AssertedType}, {T: ok, GT: boolT}}, GT: i.Type()}
		return
	}
	X.oblige(st, "typeassert", "", "type assertion succeeds: "+srcName(i.X)+".("+typeKey(i.AssertedType)+")", i.Pos(), ok)
	X.assumeValid(st, ub, i.AssertedType, 1)
	fr.Regs[i] = &Val{T: ub, GT: i.AssertedType}
}

func (X *Exec) execSelect(fr *Frame, i *ssa.Select, st *State) {
	ts := X.E.TS
	n := len(i.States)
	idx := ts.Fresh("select", SInt)
	lo := int64(0)
	if !i.Blocking {
		lo = -1
	}
	st.assume(ts, ts.And(ts.Le(ts.IntLit(lo), idx), ts.Lt(idx, ts.IntLit(int64(n)))))
	vals := []*Val{{T: idx, GT: types.Typ[types.Int]}, {T: ts.Fresh("recvok", SBool), GT: types.Typ[types.Bool]}}
	for _, s := range i.States {
		if s.Dir == types.RecvOnly {
			el := s.Chan.Type().Underlying().(*types.Chan).Elem()
			vals = append(vals, X.freshVal(st, el, "selrecv"))
		}
	}
	fr.Regs[i] = &Val{Tuple: vals, GT: i.Type()}
	X.applySelectHooks(fr, st, i, idx)
}

// applySelectHooks: `onselect N` clauses (N = ordinal of the select statement in the function, in source order):
// protocol clauses evaluated when that select has chosen; `case` = index of the chosen case (-1 = default).
func (X *Exec) applySelectHooks(fr *Frame, st *State, i *ssa.Select, idx *Term) {
	fs := X.specOf(fr)
	if fs == nil || len(fs.Callsites) == 0 {
		return
	}
	var sels []*ssa.Select
	for _, b := range fr.Fn.Blocks {
		for _, ins := range b.Instrs {
			if s, ok := ins.(*ssa.Select); ok {
				sels = append(sels, s)
			}
		}
	}
	sort.Slice(sels, func(a, b int) bool { return sels[a].Pos() < sels[b].Pos() })
	ord := -1
	for k, s := range sels {
		if s == i {
			ord = k
		}
	}
	pat := fmt.Sprintf("select:%d", ord)
	for _, cs := range fs.Callsites {
		if cs.Pattern != pat {
			continue
		}
		cs.Hits++
		vars := map[string]*Val{"case": {T: idx, GT: types.Typ[types.Int]}}
		for k, s := range i.States {
			vars[fmt.Sprintf("chan%d", k)] = X.val(fr, s.Chan)
		}
		for _, c := range cs.Requires {
			t := X.evalClause(fr, st, c, vars)
			X.oblige(st, "callsite", c.Label, fmt.Sprintf("at select %d: %s", ord, c.Src), i.Pos(), t)
		}
		for _, u := range cs.Updates {
			srt, ok := X.ghostTypes[u.Name]
			if !ok {
				panic("update of undeclared ghost " + u.Name)
			}
			sc := X.clauseCtx(fr, st, vars, "update "+u.Name)
			X.setHeap(st, "GH|"+u.Name, srt, sc.evalGhost(u.Expr, srt))
		}
	}
}

// ---------------------------------------------------------------------------
// range over map / string: iterator with a ghost visited set

type iterRec struct {
	ID   int
	Map  *Term
	MT   *types.Map
	Str  *Term
	Name string // heap name of the visited set (maps) or position (strings)
}

func (X *Exec) execRange(fr *Frame, i *ssa.Range, st *State) {
	ts := X.E.TS
	x := X.val(fr, i.X)
	X.iterSeq++
	it := &iterRec{ID: X.iterSeq}
	if mt, ok := i.X.Type().Underlying().(*types.Map); ok {
		it.Map, it.MT = x.T, mt
		it.Name = fmt.Sprintf("IT|%s|%d", X.pos(i.Pos()), 0)
		srt := ArraySort(X.E.SortOf(mt.Key()), SBool)
		X.setHeap(st, it.Name, srt, ts.ConstArray(srt, ts.False()))
	} else {
		it.Str = x.T
		it.Name = fmt.Sprintf("IT|%s|%d", X.pos(i.Pos()), 0)
		X.setHeap(st, it.Name, SInt, ts.IntLit(0))
	}
	fr.Regs[i] = &Val{GT: i.Type(), Iter: it}
}

func (X *Exec) execNext(fr *Frame, i *ssa.Next, st *State) {
	ts := X.E.TS
	it := X.val(fr, i.Iter).Iter
	boolT := types.Typ[types.Bool]
	if it.MT != nil {
		mt := it.MT
		ks := X.E.SortOf(mt.Key())
		srt := ArraySort(ks, SBool)
		vis := X.heap(st, it.Name, srt)
		ok := ts.Fresh("nextok", SBool)
		k := X.freshOfType(st, mt.Key(), "nextkey")
		present, v := X.mapLoad(st, mt, it.Map, k)
		// ok: k is a present, not yet visited key; !ok: every present key has been visited
		kk := ts.BoundVar("k", ks)
		pAll, _ := X.mapLoad(st, mt, it.Map, kk)
		st.assume(ts, ts.Ite(ok, ts.And(present, ts.Not(ts.Select(vis, k))),
			ts.Forall([]*Term{kk}, ts.Implies(pAll, ts.Select(vis, kk)))))
		X.setHeap(st, it.Name, srt, ts.Ite(ok, ts.Store(vis, k, ts.True()), vis))
		X.assumeValid(st, v, mt.Elem(), 1)
		fr.Regs[i] = &Val{Tuple: []*Val{{T: ok, GT: boolT}, {T: k, GT: mt.Key()}, {T: v, GT: mt.Elem()}}, GT: i.Type()}
		return
	}
	// string: position advances by 1..4 bytes; rune value abstract
	pos := X.heap(st, it.Name, SInt)
	ln := X.E.StrLen(it.Str)
	ok := ts.Lt(pos, ln)
	adv := ts.Fresh("runelen", SInt)
	st.assume(ts, ts.And(ts.Le(ts.IntLit(1), adv), ts.Le(adv, ts.IntLit(4)), ts.Le(ts.Add(pos, adv), ln)))
	r := ts.Fresh("rune", SInt)
	st.assume(ts, ts.And(ts.Le(ts.IntLit(0), r), ts.Le(r, ts.IntLit(0x10FFFF))))
	X.setHeap(st, it.Name, SInt, ts.Ite(ok, ts.Add(pos, adv), pos))
	fr.Regs[i] = &Val{Tuple: []*Val{{T: ok, GT: boolT}, {T: pos, GT: types.Typ[types.Int]}, {T: r, GT: types.Typ[types.Rune]}}, GT: i.Type()}
}

// ---------------------------------------------------------------------------
// arithmetic

func (X *Exec) execBinOp(fr *Frame, i *ssa.BinOp, st *State) *Val {
	ts := X.E.TS
	x, y := X.val(fr, i.X), X.val(fr, i.Y)
	T := i.Type()
	xt, yt := x.T, y.T
	// comparisons involving Go-side addresses
	if xt == nil || yt == nil {
		if i.Op == token.EQL || i.Op == token.NEQ {
			var r *Term
			switch {
			case xt == nil && yt == nil:
				r = ts.Fresh("addrcmp", SBool)
			default:
				a, o := x, yt
				if xt != nil {
					a, o = y, xt
				}
				// an address of a variable or element is never nil
				if o.Op == "int" && o.Int.Sign() == 0 {
					r = ts.False()
				} else if t, ok := X.firstClass(a.A); ok {
					r = ts.Eq(t, o)
				} else {
					r = ts.Fresh("addrcmp", SBool)
				}
			}
			if i.Op == token.NEQ {
				r = ts.Not(r)
			}
			return &Val{T: r, GT: T}
		}
		panic("binop on addresses")
	}
	xT := i.X.Type()
	if xt.Sort.BV != 0 || xt.Sort.FP != 0 {
		return &Val{T: X.bvBinOp(i.Op, xt, yt, xT, T, st), GT: T}
	}
	switch i.Op {
	case token.EQL, token.NEQ:
		var r *Term
		switch {
		case xt.Sort == SStr:
			r = X.E.StrEq(xt, yt)
		case xt.Sort == X.E.SliceS:
			// only comparison with nil is legal
			if yt.Op == "ctor" {
				r = ts.Eq(ts.Sel(xt, 0), ts.IntLit(0))
			} else {
				r = ts.Eq(ts.Sel(yt, 0), ts.IntLit(0))
			}
		case xt.Sort != yt.Sort:
			// interface vs concrete (should not happen in SSA) — be safe
			r = ts.Fresh("cmp", SBool)
		default:
			r = ts.Eq(xt, yt)
		}
		if i.Op == token.NEQ {
			r = ts.Not(r)
		}
		return &Val{T: r, GT: T}
	case token.LSS, token.LEQ, token.GTR, token.GEQ:
		if xt.Sort == SStr {
			return &Val{T: ts.Fresh("strcmp", SBool), GT: T}
		}
		if xt.Sort == SReal {
			op := map[token.Token]string{token.LSS: "<", token.LEQ: "<=", token.GTR: ">", token.GEQ: ">="}[i.Op]
			return &Val{T: ts.App(op, SBool, xt, yt), GT: T}
		}
		switch i.Op {
		case token.LSS:
			return &Val{T: ts.Lt(xt, yt), GT: T}
		case token.LEQ:
			return &Val{T: ts.Le(xt, yt), GT: T}
		case token.GTR:
			return &Val{T: ts.Gt(xt, yt), GT: T}
		default:
			return &Val{T: ts.Ge(xt, yt), GT: T}
		}
	}
	if xt.Sort == SStr && i.Op == token.ADD {
		return &Val{T: X.E.StrCat(xt, yt), GT: T}
	}
	if xt.Sort == SReal {
		op := map[token.Token]string{token.ADD: "+", token.SUB: "-", token.MUL: "*", token.QUO: "/"}[i.Op]
		if op == "" {
			panic("float op " + i.Op.String())
		}
		return &Val{T: ts.App(op, SReal, xt, yt), GT: T}
	}
	if xt.Sort == SBool {
		switch i.Op {
		case token.AND, token.LAND:
			return &Val{T: ts.And(xt, yt), GT: T}
		case token.OR, token.LOR:
			return &Val{T: ts.Or(xt, yt), GT: T}
		}
	}
	var r *Term
	switch i.Op {
	case token.ADD:
		r = ts.Add(xt, yt)
	case token.SUB:
		r = ts.Sub(xt, yt)
	case token.MUL:
		r = ts.Mul(xt, yt)
	case token.QUO, token.REM:
		X.oblige(st, "div", "", "division by zero: "+srcName(i.Y), i.Pos(), ts.Not(ts.Eq(yt, ts.IntLit(0))))
		r = X.truncDivMod(xt, yt, i.Op == token.REM)
	case token.AND:
		r = X.bitAnd(xt, yt, xT)
	case token.OR:
		r = X.bitOr(xt, yt, xT)
	case token.XOR:
		r = ts.App("bit.xor", SInt, xt, yt)
	case token.AND_NOT:
		r = ts.Sub(xt, X.bitAnd(xt, yt, xT))
	case token.SHL:
		if yt.Op == "int" && yt.Int.IsInt64() && yt.Int.Int64() < 200 {
			r = ts.Mul(xt, ts.BigLit(new(big.Int).Lsh(big.NewInt(1), uint(yt.Int.Int64()))))
		} else {
			r = ts.App("bit.shl", SInt, xt, yt)
		}
		return &Val{T: X.E.wrap(r, T), GT: T}
	case token.SHR:
		if yt.Op == "int" && yt.Int.IsInt64() && yt.Int.Int64() < 200 {
			r = ts.Div(xt, ts.BigLit(new(big.Int).Lsh(big.NewInt(1), uint(yt.Int.Int64())))) // floor division = arithmetic shift
		} else {
			r = ts.App("bit.shr", SInt, xt, yt)
		}
		return &Val{T: r, GT: T}
	default:
		panic("binop " + i.Op.String())
	}
	if X.Wrap64 {
		// `opt arith wrap64`: + - * wrap at the type's width for 64-bit types too (machine arithmetic), so that an
		// overflow of a peer-controlled number is not hidden by mathematical integers
		if _, _, isInt := intRange(T); isInt {
			return &Val{T: X.E.wrap(r, T), GT: T}
		}
	}
	return &Val{T: X.E.wrapIfNarrow(r, T), GT: T}
}

// truncDivMod: Go's truncated division in terms of SMT-LIB's euclidean div/mod.
func (X *Exec) truncDivMod(x, y *Term, rem bool) *Term {
	ts := X.E.TS
	z := ts.IntLit(0)
	abs := func(t *Term) *Term { return ts.Ite(ts.Le(z, t), t, ts.Neg(t)) }
	if x.Op == "int" && y.Op == "int" && y.Int.Sign() != 0 {
		q, r := new(big.Int).QuoRem(x.Int, y.Int, new(big.Int))
		if rem {
			return ts.BigLit(r)
		}
		return ts.BigLit(q)
	}
	q := ts.Div(abs(x), abs(y))
	sameSign := ts.Eq(ts.Le(z, x), ts.Le(z, y))
	quo := ts.Ite(sameSign, q, ts.Neg(q))
	if y.Op == "int" && y.Int.Sign() > 0 {
		// common case: positive constant divisor
		quo = ts.Ite(ts.Le(z, x), ts.Div(x, y), ts.Neg(ts.Div(ts.Neg(x), y)))
	}
	if !rem {
		return quo
	}
	return ts.Sub(x, ts.Mul(quo, y))
}

// bit k of a non-negative (or two's complement wrapped) value
func (X *Exec) bitK(x *Term, k int) *Term {
	ts := X.E.TS
	return ts.Mod(ts.Div(x, ts.BigLit(new(big.Int).Lsh(big.NewInt(1), uint(k)))), ts.IntLit(2))
}

func (X *Exec) bitAnd(x, y *Term, T types.Type) *Term {
	ts := X.E.TS
	if x.Op == "int" && y.Op != "int" {
		x, y = y, x
	}
	if y.Op == "int" && y.Int.Sign() >= 0 {
		m := y.Int
		// mask 2^k-1
		if new(big.Int).And(m, new(big.Int).Add(m, big.NewInt(1))).Sign() == 0 {
			return ts.Mod(x, ts.BigLit(new(big.Int).Add(m, big.NewInt(1))))
		}
		if m.BitLen() <= 64 {
			r := ts.IntLit(0)
			for k := 0; k < m.BitLen(); k++ {
				if m.Bit(k) == 1 {
					r = ts.Add(r, ts.Mul(X.bitK(x, k), ts.BigLit(new(big.Int).Lsh(big.NewInt(1), uint(k)))))
				}
			}
			return r
		}
	}
	r := ts.App("bit.and", SInt, x, y)
	return r
}

func (X *Exec) bitOr(x, y *Term, T types.Type) *Term {
	ts := X.E.TS
	if x.Op == "int" && y.Op != "int" {
		x, y = y, x
	}
	if y.Op == "int" && y.Int.Sign() >= 0 && y.Int.BitLen() <= 64 {
		m := y.Int
		r := x
		for k := 0; k < m.BitLen(); k++ {
			if m.Bit(k) == 1 {
				r = ts.Add(r, ts.Mul(ts.Sub(ts.IntLit(1), X.bitK(x, k)), ts.BigLit(new(big.Int).Lsh(big.NewInt(1), uint(k)))))
			}
		}
		return r
	}
	return ts.App("bit.or", SInt, x, y)
}

func (E *Env) StrCat(a, b *Term) *Term {
	ts := E.TS
	ts.AddAxiomOnce("str.cat", func() *Term {
		ts.DeclareFunc("str.cat", []*Sort{SStr, SStr}, SStr)
		x := ts.BoundVar("a", SStr)
		y := ts.BoundVar("b", SStr)
		k := ts.BoundVar("k", SInt)
		c := ts.App("str.cat", SStr, x, y)
		ax1 := ts.Forall([]*Term{x, y}, ts.Eq(E.StrLen(c), ts.Add(E.StrLen(x), E.StrLen(y))), []*Term{c})
		ax2 := ts.Forall([]*Term{x, y, k}, ts.Implies(ts.And(ts.Le(ts.IntLit(0), k), ts.Lt(k, ts.Add(E.StrLen(x), E.StrLen(y)))),
			ts.Eq(E.StrAt(c, k), ts.Ite(ts.Lt(k, E.StrLen(x)), E.StrAt(x, k), E.StrAt(y, ts.Sub(k, E.StrLen(x)))))), []*Term{E.StrAt(c, k)})
		return ts.And(ax1, ax2)
	})
	return ts.App("str.cat", SStr, a, b)
}

func (X *Exec) execConvert(fr *Frame, i *ssa.Convert, st *State) *Val {
	ts := X.E.TS
	x := X.val(fr, i.X)
	from, to := i.X.Type().Underlying(), i.Type().Underlying()
	T := i.Type()
	fb, fok := from.(*types.Basic)
	tb, tok := to.(*types.Basic)
	if X.E.BV && fok && tok && fb.Info()&(types.IsInteger|types.IsFloat) != 0 && tb.Info()&(types.IsInteger|types.IsFloat) != 0 {
		return &Val{T: X.bvConvert(x.T, i.X.Type(), T, st), GT: T}
	}
	switch {
	case fok && tok && fb.Info()&types.IsInteger != 0 && tb.Info()&types.IsInteger != 0:
		return &Val{T: X.E.wrap(x.T, T), GT: T}
	case fok && tok && fb.Info()&types.IsInteger != 0 && tb.Info()&types.IsFloat != 0:
		return &Val{T: ts.Raw("to_real", SReal, x.T), GT: T}
	case fok && tok && fb.Info()&types.IsFloat != 0 && tb.Info()&types.IsFloat != 0:
		return &Val{T: x.T, GT: T}
	case fok && tok && fb.Info()&types.IsFloat != 0 && tb.Info()&types.IsInteger != 0:
		// truncation toward zero when representable; otherwise an arbitrary value of the type
		r := X.freshOfType(st, T, "f2i")
		z := ts.RealLit("0.0")
		fl := ts.Raw("to_int", SInt, x.T)
		neg := ts.Neg(ts.Raw("to_int", SInt, ts.Raw("-", SReal, x.T)))
		tr := ts.Ite(ts.Raw(">=", SBool, x.T, z), fl, neg)
		st.assume(ts, ts.Implies(X.E.inRange(tr, T), ts.Eq(r, tr)))
		return &Val{T: r, GT: T}
	case fok && fb.Info()&types.IsString != 0:
		// string -> []byte / []rune
		if sl, ok := to.(*types.Slice); ok {
			if b, ok := sl.Elem().Underlying().(*types.Basic); ok && b.Kind() == types.Uint8 {
				arr := X.newRef(st, "bytesof")
				n, s := X.E.ElemHeap(sl.Elem())
				content := ts.Fresh("bytesof.data", s.Elem)
				k := ts.BoundVar("k", SInt)
				ln := X.E.StrLen(x.T)
				st.assume(ts, ts.Forall([]*Term{k}, ts.Implies(ts.And(ts.Le(ts.IntLit(0), k), ts.Lt(k, ln)), ts.Eq(ts.Select(content, k), X.E.StrAt(x.T, k))), []*Term{ts.Select(content, k)}))
				X.setHeap(st, n, s, ts.Store(X.heap(st, n, s), arr, content))
				return &Val{T: ts.Ctor(X.E.SliceS, arr, ts.IntLit(0), ln, ln), GT: T}
			}
		}
		return X.freshVal(st, T, "conv")
	case tok && tb.Info()&types.IsString != 0:
		if sl, ok := from.(*types.Slice); ok {
			if b, ok := sl.Elem().Underlying().(*types.Basic); ok && b.Kind() == types.Uint8 {
				return &Val{T: X.strOfBytes(st, x.T, sl.Elem()), GT: T}
			}
		}
		return X.freshVal(st, T, "conv")
	}
	if _, ok := to.(*types.Pointer); ok {
		return &Val{T: x.T, GT: T}
	}
	if x.T != nil && X.E.SortOf(T) == x.T.Sort {
		return &Val{T: x.T, GT: T}
	}
	return X.freshVal(st, T, "conv")
}

// strOfBytes: string(b) for the current content of b.
func (X *Exec) strOfBytes(st *State, b *Term, elem types.Type) *Term {
	ts := X.E.TS
	n, s := X.E.ElemHeap(elem)
	arr := ts.Select(X.heap(st, n, s), ts.Sel(b, 0))
	off, ln := ts.Sel(b, 1), ts.Sel(b, 2)
	str := ts.Fresh("strof", SStr)
	k := ts.BoundVar("k", SInt)
	st.assume(ts, ts.And(ts.Eq(X.E.StrLen(str), ln),
		ts.Forall([]*Term{k}, ts.Implies(ts.And(ts.Le(ts.IntLit(0), k), ts.Lt(k, ln)), ts.Eq(X.E.StrAt(str, k), ts.Select(arr, X.E.ElemIdx(off, k)))), []*Term{X.E.StrAt(str, k)})))
	return str
}

func (X *Exec) noteAlloc(st *State, n *Term, el types.Type, pos token.Pos) {
	// ghost: largest element count of any make([]T, n) during the call
	{
		ts := X.E.TS
		cur := X.heap(st, "GM|maxmake", SInt)
		X.setHeap(st, "GM|maxmake", SInt, ts.Ite(ts.Lt(cur, n), n, cur))
	}
	// ghost: largest make([]byte, n) during the call, for allocation-bound contracts
	if b, ok := el.Underlying().(*types.Basic); !ok || b.Kind() != types.Uint8 {
		return
	}
	ts := X.E.TS
	cur := X.heap(st, "GM|maxalloc", SInt)
	X.setHeap(st, "GM|maxalloc", SInt, ts.Ite(ts.Lt(cur, n), n, cur))
}

// applyStoreHooks: `onstore <field>` clauses of the frame's contract: protocol clauses (requires / update) evaluated
// when the function assigns to that field of an object (`recv` = the object, `value` = what is stored).
func (X *Exec) applyStoreHooks(fr *Frame, st *State, i *ssa.Store, addr *Addr, v *Val) {
	fs := X.specOf(fr)
	if fs == nil || len(fs.Callsites) == 0 || addr.Kind != AddrObj || len(addr.Path) != 1 || addr.Path[0].Field < 0 {
		return
	}
	sT := structOf(addr.ObjT)
	if sT == nil {
		return
	}
	pat := "store:" + sT.Field(addr.Path[0].Field).Name()
	for _, cs := range fs.Callsites {
		if cs.Pattern != pat {
			continue
		}
		cs.Hits++
		vars := map[string]*Val{"recv": {T: addr.Ref, GT: types.NewPointer(addr.ObjT)}}
		if v.T != nil {
			vars["value"] = v
		}
		for _, c := range cs.Requires {
			t := X.evalClause(fr, st, c, vars)
			X.oblige(st, "callsite", c.Label, fmt.Sprintf("at assignment to .%s: %s", pat[6:], c.Src), i.Pos(), t)
		}
		for _, u := range cs.Updates {
			srt, ok := X.ghostTypes[u.Name]
			if !ok {
				panic("update of undeclared ghost " + u.Name)
			}
			sc := X.clauseCtx(fr, st, vars, "update "+u.Name)
			X.setHeap(st, "GH|"+u.Name, srt, sc.evalGhost(u.Expr, srt))
		}
	}
}

// applyUpdateHooks: `onupdate <name>` clauses: protocol clauses evaluated when the function executes m[key] = value on
// the map variable or field of that name (`recv` = the map, `key`, `value`), before the update.
func (X *Exec) applyUpdateHooks(fr *Frame, st *State, i *ssa.MapUpdate, m *Val) {
	fs := X.specOf(fr)
	if fs == nil || len(fs.Callsites) == 0 {
		return
	}
	name := srcName(i.Map)
	if k := strings.LastIndex(name, "."); k >= 0 {
		name = name[k+1:]
	}
	pat := "update:" + name
	for _, cs := range fs.Callsites {
		if cs.Pattern != pat {
			continue
		}
		cs.Hits++
		vars := map[string]*Val{"recv": m}
		if kv := X.val(fr, i.Key); kv.T != nil {
			vars["key"] = kv
		}
		if vv := X.val(fr, i.Value); vv.T != nil {
			vars["value"] = vv
		}
		for _, c := range cs.Requires {
			t := X.evalClause(fr, st, c, vars)
			X.oblige(st, "callsite", c.Label, fmt.Sprintf("at %s[...] = ...: %s", name, c.Src), i.Pos(), t)
		}
		for _, u := range cs.Updates {
			srt, ok := X.ghostTypes[u.Name]
			if !ok {
				panic("update of undeclared ghost " + u.Name)
			}
			sc := X.clauseCtx(fr, st, vars, "update "+u.Name)
			X.setHeap(st, "GH|"+u.Name, srt, sc.evalGhost(u.Expr, srt))
		}
	}
}

// immutableCapture: the captured variable is assigned exactly once (where it is declared / spilled) by the function
// that owns it and by no closure: inside the closures it is a constant.
func immutableCapture(fv *ssa.FreeVar) bool {
	fn := fv.Parent()
	if fn == nil || fn.Parent() == nil {
		return false
	}
	idx := -1
	for k, f := range fn.FreeVars {
		if f == fv {
			idx = k
		}
	}
	if idx < 0 {
		return false
	}
	parent := fn.Parent()
	for _, b := range parent.Blocks {
		for _, ins := range b.Instrs {
			mc, ok := ins.(*ssa.MakeClosure)
			if !ok || mc.Fn != fn || idx >= len(mc.Bindings) {
				continue
			}
			switch v := mc.Bindings[idx].(type) {
			case *ssa.Alloc:
				if !ownedCell(v) {
					return false
				}
				stores := 0
				for _, ref := range *v.Referrers() {
					if st, ok := ref.(*ssa.Store); ok && st.Addr == v {
						stores++
					}
				}
				return stores == 1
			case *ssa.FreeVar:
				return immutableCapture(v)
			}
			return false
		}
	}
	return false
}

package main

// Lock-order discipline (C16, deadlock freedom between DIFFERENT mutexes).
//
// Lock classes are "Type.field" of the struct field holding the mutex. For every function the classes it may acquire
// are inferred as a summary (its own Lock/RLock calls plus the summaries of what it calls synchronously: static
// callees, interface methods resolved to the repository's implementations, closures, function values resolved through
// the struct fields / parameters they travel in). For every acquisition and every call the classes held at that point
// (flow-sensitive over the CFG, defers run LIFO at the returns, `holds` clauses of the contracts at entry, a `go`
// statement starts with nothing held) are ordered before the classes acquired there. The obligation of each such site:
// its order edges lie on no cycle of the program's lock-order graph. A cycle is a possible deadlock.

import (
	"encoding/json"
	"fmt"
	"go/token"
	"go/types"
	"os"
	"sort"
	"strings"

	"golang.org/x/tools/go/ssa"
)

type loSite struct {
	Fn   string `json:"function"`
	Pos  string `json:"pos"`
	Held string `json:"held"`
	Acq  string `json:"acquires"`
	Via  string `json:"via,omitempty"`
}

type loResult struct {
	Functions int                 `json:"functions"`
	Classes   []string            `json:"classes"`
	Edges     map[string][]string `json:"edges"`
	Sites     []loSite            `json:"sites"`
	Cycles    [][]string          `json:"cycles"`
	BadSites  []loSite            `json:"bad_sites"`
	SameClass []loSite            `json:"same_class_nesting_left_to_lockset_obligations"`
	Unknown   map[string]int      `json:"unresolved_dynamic_calls"`
}

type loAnalysis struct {
	E        *Env
	P        *Program
	fns      []*ssa.Function
	direct   map[*ssa.Function]map[string]bool
	summary  map[*ssa.Function]map[string]bool
	callees  map[*ssa.Function]map[*ssa.Function]bool // synchronous callees
	fieldFns map[string]map[*ssa.Function]bool        // "Type.field" -> function values stored there
	paramFns map[*ssa.Parameter]map[*ssa.Function]bool
	impls    map[string][]*ssa.Function // interface method key -> implementations
	unknown  map[string]int
}

func isMutexMethod(fn *ssa.Function) (string, bool) {
	if fn == nil {
		return "", false
	}
	k := externKey(fn)
	for _, p := range []string{"sync.(*Mutex).", "sync.(*RWMutex).", "github.com/sasha-s/go-deadlock.(*Mutex).", "github.com/sasha-s/go-deadlock.(*RWMutex)."} {
		if strings.HasPrefix(k, p) {
			return strings.TrimPrefix(k, p), true
		}
	}
	return "", false
}

// lockClass: the class of the mutex whose address is v ("" when it is not a struct field or a global).
func lockClass(v ssa.Value) string {
	switch a := v.(type) {
	case *ssa.FieldAddr:
		T := deref(a.X.Type())
		st := structOf(T)
		if st == nil {
			return ""
		}
		return typeSpecKey(T) + "." + st.Field(a.Field).Name()
	case *ssa.Global:
		return "global." + a.Name()
	case *ssa.UnOp:
		// a *Mutex kept in a field: class of that field
		if a.Op == token.MUL {
			if fa, ok := a.X.(*ssa.FieldAddr); ok {
				return lockClass(fa)
			}
		}
	}
	return ""
}

func (A *loAnalysis) repoFunc(fn *ssa.Function) bool {
	return fn != nil && fn.Blocks != nil && (A.P.Keys[fn] != "" || (fn.Origin() != nil && A.P.Keys[fn.Origin()] != "") || fn.Parent() != nil || strings.HasSuffix(fn.Name(), "$bound") || strings.HasSuffix(fn.Name(), "$thunk"))
}

// funcValues: the functions a func-typed value may denote (nil map: nothing resolved).
func (A *loAnalysis) funcValues(v ssa.Value, depth int, seen map[ssa.Value]bool) map[*ssa.Function]bool {
	out := map[*ssa.Function]bool{}
	if depth > 6 || seen[v] {
		return out
	}
	seen[v] = true
	add := func(m map[*ssa.Function]bool) {
		for f := range m {
			out[f] = true
		}
	}
	switch x := v.(type) {
	case *ssa.Function:
		out[x] = true
	case *ssa.MakeClosure:
		if f, ok := x.Fn.(*ssa.Function); ok {
			out[f] = true
		}
	case *ssa.ChangeType:
		add(A.funcValues(x.X, depth+1, seen))
	case *ssa.MakeInterface:
		add(A.funcValues(x.X, depth+1, seen))
	case *ssa.Parameter:
		add(A.paramFns[x])
	case *ssa.FreeVar:
		// captured variable (a cell in naive form): the values bound where the closure is made
		if fn := x.Parent(); fn != nil && fn.Parent() != nil {
			idx := -1
			for i, fv := range fn.FreeVars {
				if fv == x {
					idx = i
				}
			}
			for _, b := range fn.Parent().Blocks {
				for _, ins := range b.Instrs {
					if mc, ok := ins.(*ssa.MakeClosure); ok && mc.Fn == fn && idx >= 0 && idx < len(mc.Bindings) {
						add(A.funcValues(mc.Bindings[idx], depth+1, seen))
					}
				}
			}
		}
	case *ssa.Alloc:
		// a local cell: everything stored into it
		if x.Referrers() != nil {
			for _, r := range *x.Referrers() {
				if st, ok := r.(*ssa.Store); ok && st.Addr == x {
					add(A.funcValues(st.Val, depth+1, seen))
				}
			}
		}
	case *ssa.UnOp:
		if x.Op == token.MUL {
			switch a := x.X.(type) {
			case *ssa.FieldAddr:
				T := deref(a.X.Type())
				if st := structOf(T); st != nil {
					add(A.fieldFns[typeSpecKey(T)+"."+st.Field(a.Field).Name()])
				}
			case *ssa.Alloc, *ssa.FreeVar:
				add(A.funcValues(a, depth+1, seen))
			case *ssa.Global:
				add(A.fieldFns["global."+a.Name()])
			}
		}
	case *ssa.Field:
		T := x.X.Type()
		if st := structOf(T); st != nil {
			add(A.fieldFns[typeSpecKey(T)+"."+st.Field(x.Field).Name()])
		}
	}
	return out
}

func (A *loAnalysis) collectStores() {
	A.fieldFns = map[string]map[*ssa.Function]bool{}
	A.paramFns = map[*ssa.Parameter]map[*ssa.Function]bool{}
	isFuncT := func(t types.Type) bool {
		_, ok := t.Underlying().(*types.Signature)
		return ok
	}
	for round := 0; round < 4; round++ {
		for _, fn := range A.fns {
			for _, b := range fn.Blocks {
				for _, ins := range b.Instrs {
					switch i := ins.(type) {
					case *ssa.Store:
						if !isFuncT(i.Val.Type()) {
							continue
						}
						key := ""
						switch a := i.Addr.(type) {
						case *ssa.FieldAddr:
							T := deref(a.X.Type())
							if st := structOf(T); st != nil {
								key = typeSpecKey(T) + "." + st.Field(a.Field).Name()
							}
						case *ssa.Global:
							key = "global." + a.Name()
						}
						if key == "" {
							continue
						}
						if A.fieldFns[key] == nil {
							A.fieldFns[key] = map[*ssa.Function]bool{}
						}
						for f := range A.funcValues(i.Val, 0, map[ssa.Value]bool{}) {
							A.fieldFns[key][f] = true
						}
					case ssa.CallInstruction:
						cc := i.Common()
						sc := cc.StaticCallee()
						if sc == nil || sc.Blocks == nil {
							continue
						}
						for k, arg := range cc.Args {
							if k >= len(sc.Params) || !isFuncT(arg.Type()) {
								continue
							}
							p := sc.Params[k]
							if A.paramFns[p] == nil {
								A.paramFns[p] = map[*ssa.Function]bool{}
							}
							for f := range A.funcValues(arg, 0, map[ssa.Value]bool{}) {
								A.paramFns[p][f] = true
							}
						}
					}
				}
			}
		}
	}
}

// implementations of an interface method among the repository's types
func (A *loAnalysis) invokeTargets(cc *ssa.CallCommon) []*ssa.Function {
	it, ok := cc.Value.Type().Underlying().(*types.Interface)
	if !ok {
		return nil
	}
	key := typeKey(cc.Value.Type()) + "." + cc.Method.Name()
	if r, ok := A.impls[key]; ok {
		return r
	}
	var out []*ssa.Function
	seen := map[*ssa.Function]bool{}
	for _, p := range A.P.Pkgs {
		scope := p.Types.Scope()
		for _, name := range scope.Names() {
			tn, ok := scope.Lookup(name).(*types.TypeName)
			if !ok || tn.IsAlias() {
				continue
			}
			if _, isIface := tn.Type().Underlying().(*types.Interface); isIface {
				continue
			}
			if named, ok := tn.Type().(*types.Named); ok && named.TypeParams().Len() > 0 {
				continue
			}
			for _, T := range []types.Type{tn.Type(), types.NewPointer(tn.Type())} {
				if !types.Implements(T, it) {
					continue
				}
				sel := A.P.Prog.MethodSets.MethodSet(T).Lookup(cc.Method.Pkg(), cc.Method.Name())
				if sel == nil {
					continue
				}
				if f := A.P.Prog.MethodValue(sel); f != nil && !seen[f] {
					seen[f] = true
					out = append(out, f)
				}
			}
		}
	}
	A.impls[key] = out
	return out
}

// callTargets: the functions a call may run synchronously; async: the call only starts goroutines / timers.
func (A *loAnalysis) callTargets(cc *ssa.CallCommon) (targets []*ssa.Function, via string) {
	if cc.IsInvoke() {
		return A.invokeTargets(cc), "interface " + typeKey(cc.Value.Type()) + "." + cc.Method.Name()
	}
	if sc := cc.StaticCallee(); sc != nil {
		if _, ok := isMutexMethod(sc); ok {
			return nil, ""
		}
		if sc.Blocks != nil {
			return []*ssa.Function{sc}, ""
		}
		// a library function: it may call the function values handed to it (Once.Do, Set.Each, sort.Slice, ...)
		k := externKey(sc)
		if k == "time.AfterFunc" {
			return nil, ""
		}
		for _, arg := range cc.Args {
			if _, ok := arg.Type().Underlying().(*types.Signature); ok {
				for f := range A.funcValues(arg, 0, map[ssa.Value]bool{}) {
					targets = append(targets, f)
				}
			}
		}
		return targets, "library " + k
	}
	if _, ok := cc.Value.(*ssa.Builtin); ok {
		return nil, ""
	}
	if isHandlerType(cc.Value.Type()) {
		return nil, "" // user handlers: covered by the no-lock-across-handler rule
	}
	fv := A.funcValues(cc.Value, 0, map[ssa.Value]bool{})
	if len(fv) == 0 {
		A.unknown[typeKey(cc.Value.Type())]++
	}
	for f := range fv {
		targets = append(targets, f)
	}
	return targets, "function value"
}

func (A *loAnalysis) summaries() {
	A.direct = map[*ssa.Function]map[string]bool{}
	A.callees = map[*ssa.Function]map[*ssa.Function]bool{}
	var all []*ssa.Function
	seen := map[*ssa.Function]bool{}
	var visit func(fn *ssa.Function)
	visit = func(fn *ssa.Function) {
		if fn == nil || seen[fn] || fn.Blocks == nil {
			return
		}
		seen[fn] = true
		all = append(all, fn)
		A.direct[fn] = map[string]bool{}
		A.callees[fn] = map[*ssa.Function]bool{}
		for _, b := range fn.Blocks {
			for _, ins := range b.Instrs {
				ci, ok := ins.(ssa.CallInstruction)
				if !ok {
					continue
				}
				if _, isGo := ins.(*ssa.Go); isGo {
					// the new goroutine starts with nothing held; still analyse what it runs
					ts, _ := A.callTargets(ci.Common())
					for _, t := range ts {
						visit(t)
					}
					continue
				}
				cc := ci.Common()
				if sc := cc.StaticCallee(); sc != nil {
					if m, ok := isMutexMethod(sc); ok {
						if (m == "Lock" || m == "RLock") && len(cc.Args) > 0 {
							if c := lockClass(cc.Args[0]); c != "" {
								A.direct[fn][c] = true
							}
						}
						continue
					}
				}
				ts, _ := A.callTargets(cc)
				for _, t := range ts {
					if t.Blocks != nil {
						A.callees[fn][t] = true
						visit(t)
					}
				}
			}
		}
	}
	for _, fn := range A.fns {
		visit(fn)
	}
	A.fns = all
	A.summary = map[*ssa.Function]map[string]bool{}
	for _, fn := range all {
		A.summary[fn] = map[string]bool{}
		for c := range A.direct[fn] {
			A.summary[fn][c] = true
		}
	}
	for changed := true; changed; {
		changed = false
		for _, fn := range all {
			for cal := range A.callees[fn] {
				for c := range A.summary[cal] {
					if !A.summary[fn][c] {
						A.summary[fn][c] = true
						changed = true
					}
				}
			}
		}
	}
}

// holdsClasses: lock classes named by the `holds` clauses of the function's contract.
func (A *loAnalysis) holdsClasses(fn *ssa.Function) []string {
	key := A.P.Keys[fn]
	if key == "" && fn.Origin() != nil {
		key = A.P.Keys[fn.Origin()]
	}
	fs := A.E.Specs.Funcs[key]
	if fs == nil {
		return nil
	}
	var out []string
	for _, h := range fs.Holds {
		// x.f or x.f.g: root is a parameter / receiver / captured variable
		var path []string
		e := h
		for e != nil && e.Kind == "paren" {
			e = e.Args[0]
		}
		for e != nil && e.Kind == "sel" {
			path = append([]string{e.Name}, path...)
			e = e.Args[0]
		}
		if e == nil || e.Kind != "ident" || len(path) == 0 {
			continue
		}
		var T types.Type
		for _, p := range fn.Params {
			if p.Name() == e.Name {
				T = p.Type()
			}
		}
		for f := fn; T == nil && f != nil; f = f.Parent() {
			for _, fv := range f.FreeVars {
				if fv.Name() == e.Name {
					T = deref(fv.Type()) // captured variables are cells
				}
			}
			if f != fn {
				for _, p := range f.Params {
					if p.Name() == e.Name {
						T = p.Type()
					}
				}
			}
		}
		if T == nil {
			continue
		}
		cls := ""
		for _, name := range path {
			S := deref(T)
			st := structOf(S)
			if st == nil {
				cls = ""
				break
			}
			found := false
			for k := 0; k < st.NumFields(); k++ {
				if st.Field(k).Name() == name {
					cls = typeSpecKey(S) + "." + name
					T = st.Field(k).Type()
					found = true
				}
			}
			if !found {
				cls = ""
				break
			}
		}
		if cls != "" {
			out = append(out, cls)
		}
	}
	return out
}

type loState struct {
	held   map[string]bool
	defers []loDefer
}

type loDefer struct {
	unlock string // class released, or
	call   *ssa.Defer
}

func (s *loState) clone() *loState {
	n := &loState{held: map[string]bool{}, defers: append([]loDefer{}, s.defers...)}
	for c := range s.held {
		n.held[c] = true
	}
	return n
}

func (s *loState) join(o *loState) bool {
	changed := false
	for c := range o.held {
		if !s.held[c] {
			s.held[c] = true
			changed = true
		}
	}
	// deferred actions: keep the union, in first-seen order
	for _, d := range o.defers {
		found := false
		for _, e := range s.defers {
			if e == d {
				found = true
			}
		}
		if !found {
			s.defers = append(s.defers, d)
			changed = true
		}
	}
	return changed
}

func (A *loAnalysis) analyse(fn *ssa.Function, emit func(site loSite)) {
	key := A.P.Keys[fn]
	if key == "" {
		key = fn.String()
	}
	in := map[*ssa.BasicBlock]*loState{}
	entry := &loState{held: map[string]bool{}}
	for _, c := range A.holdsClasses(fn) {
		entry.held[c] = true
	}
	in[fn.Blocks[0]] = entry
	work := []*ssa.BasicBlock{fn.Blocks[0]}
	emitted := map[string]bool{}
	pos := func(p token.Pos) string {
		pp := A.P.Prog.Fset.Position(p)
		return fmt.Sprintf("%s:%d", strings.TrimPrefix(pp.Filename, A.P.Dir+"/"), pp.Line)
	}
	order := func(st *loState, acq map[string]bool, p token.Pos, via string) {
		for h := range st.held {
			for a := range acq {
				k := h + ">" + a + "@" + pos(p)
				if emitted[k] {
					continue
				}
				emitted[k] = true
				emit(loSite{Fn: key, Pos: pos(p), Held: h, Acq: a, Via: via})
			}
		}
	}
	call := func(st *loState, cc *ssa.CallCommon, p token.Pos) {
		if sc := cc.StaticCallee(); sc != nil {
			if m, ok := isMutexMethod(sc); ok && len(cc.Args) > 0 {
				c := lockClass(cc.Args[0])
				if c == "" {
					return
				}
				switch m {
				case "Lock", "RLock":
					order(st, map[string]bool{c: true}, p, "")
					st.held[c] = true
				case "Unlock", "RUnlock":
					delete(st.held, c)
				}
				return
			}
		}
		ts, via := A.callTargets(cc)
		for _, t := range ts {
			if len(A.summary[t]) > 0 && len(st.held) > 0 {
				v := A.P.Keys[t]
				if v == "" {
					v = t.String()
				}
				if via != "" {
					v = via + " -> " + v
				}
				order(st, A.summary[t], p, "call of "+v)
			}
		}
	}
	for iter := 0; len(work) > 0 && iter < 10000; iter++ {
		b := work[0]
		work = work[1:]
		st := in[b].clone()
		for _, ins := range b.Instrs {
			switch i := ins.(type) {
			case *ssa.Go:
			case *ssa.Defer:
				cc := i.Common()
				if sc := cc.StaticCallee(); sc != nil {
					if m, ok := isMutexMethod(sc); ok {
						if (m == "Unlock" || m == "RUnlock") && len(cc.Args) > 0 {
							if c := lockClass(cc.Args[0]); c != "" {
								st.defers = append(st.defers, loDefer{unlock: c})
							}
						}
						continue
					}
				}
				st.defers = append(st.defers, loDefer{call: i})
			case *ssa.RunDefers:
				for k := len(st.defers) - 1; k >= 0; k-- {
					d := st.defers[k]
					if d.unlock != "" {
						delete(st.held, d.unlock)
					} else {
						call(st, d.call.Common(), d.call.Pos())
					}
				}
				st.defers = nil
			case ssa.CallInstruction:
				call(st, i.Common(), i.Pos())
			}
		}
		for _, s := range b.Succs {
			if in[s] == nil {
				in[s] = st.clone()
				work = append(work, s)
			} else if in[s].join(st) {
				work = append(work, s)
			}
		}
	}
}

func cmdLockOrder(args []string) {
	E, _ := setup()
	res := lockOrder(E)
	out, _ := json.MarshalIndent(res, "", " ")
	if len(args) > 0 {
		os.WriteFile(args[0], out, 0o644)
	} else {
		os.Stdout.Write(out)
		fmt.Println()
	}
	fmt.Fprintf(os.Stderr, "lockorder: %d functions, %d classes, %d order sites, %d on a cycle\n", res.Functions, len(res.Classes), len(res.Sites), len(res.BadSites))
}

func lockOrder(E *Env) *loResult {
	P := E.P
	A := &loAnalysis{E: E, P: P, impls: map[string][]*ssa.Function{}, unknown: map[string]int{}}
	var keys []string
	for k := range P.Funcs {
		keys = append(keys, k)
	}
	sort.Strings(keys)
	for _, k := range keys {
		A.fns = append(A.fns, P.Funcs[k])
	}
	A.collectStores()
	A.summaries()
	res := &loResult{Edges: map[string][]string{}, Unknown: A.unknown}
	edge := map[string]map[string]bool{}
	sort.Slice(A.fns, func(i, j int) bool { return A.fns[i].String() < A.fns[j].String() })
	for _, fn := range A.fns {
		res.Functions++
		A.analyse(fn, func(s loSite) {
			if s.Held == s.Acq {
				// two locks of ONE class: instances matter - the business of the per-function lockset obligations
				// (no self-deadlock, `holds`), not of the class-level order
				res.SameClass = append(res.SameClass, s)
				return
			}
			res.Sites = append(res.Sites, s)
			if edge[s.Held] == nil {
				edge[s.Held] = map[string]bool{}
			}
			edge[s.Held][s.Acq] = true
		})
	}
	classes := map[string]bool{}
	for a, m := range edge {
		classes[a] = true
		for b := range m {
			classes[b] = true
			res.Edges[a] = append(res.Edges[a], b)
		}
		sort.Strings(res.Edges[a])
	}
	for _, fn := range A.fns {
		for c := range A.direct[fn] {
			classes[c] = true
		}
	}
	for c := range classes {
		res.Classes = append(res.Classes, c)
	}
	sort.Strings(res.Classes)
	// strongly connected components: an edge inside a component lies on a cycle
	comp := loSCC(res.Classes, edge)
	compMembers := map[int][]string{}
	for c, k := range comp {
		compMembers[k] = append(compMembers[k], c)
	}
	cyc := map[int]bool{}
	for k, ms := range compMembers {
		sort.Strings(ms)
		if len(ms) > 1 {
			res.Cycles = append(res.Cycles, ms)
			cyc[k] = true
		}
	}
	sort.Slice(res.Cycles, func(i, j int) bool { return strings.Join(res.Cycles[i], ",") < strings.Join(res.Cycles[j], ",") })
	for _, s := range res.Sites {
		if comp[s.Held] == comp[s.Acq] && cyc[comp[s.Held]] {
			res.BadSites = append(res.BadSites, s)
		}
	}
	return res
}

// loSCC: Tarjan; components of size 1 get their own id too.
func loSCC(nodes []string, edge map[string]map[string]bool) map[string]int {
	index := map[string]int{}
	low := map[string]int{}
	on := map[string]bool{}
	comp := map[string]int{}
	var stack []string
	n, nc := 0, 0
	var strong func(v string)
	strong = func(v string) {
		index[v], low[v] = n, n
		n++
		stack = append(stack, v)
		on[v] = true
		var succ []string
		for w := range edge[v] {
			succ = append(succ, w)
		}
		sort.Strings(succ)
		for _, w := range succ {
			if _, ok := index[w]; !ok {
				strong(w)
				if low[w] < low[v] {
					low[v] = low[w]
				}
			} else if on[w] && index[w] < low[v] {
				low[v] = index[w]
			}
		}
		if low[v] == index[v] {
			for {
				w := stack[len(stack)-1]
				stack = stack[:len(stack)-1]
				on[w] = false
				comp[w] = nc
				if w == v {
					break
				}
			}
			nc++
		}
	}
	for _, v := range nodes {
		if _, ok := index[v]; !ok {
			strong(v)
		}
	}
	return comp
}

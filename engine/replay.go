package main

import (
	"bytes"
	"encoding/json"
	"fmt"
	"os"
	"os/exec"
	"path/filepath"
	"strings"
	"text/template"
)

type ReplaySpec struct {
	Template string            `json:"template"` // file under /verif/replay
	Pkg      string            `json:"pkg"`      // package directory relative to /repo
	Values   map[string]string `json:"values"`   // name -> spec expression over the entry state
	Prefer   []string          `json:"prefer"`   // extra constraints wanted of the model (replay-friendly sizes)
}

// parse "((term value) (term value) ...)" from a solver's get-value answer
type sx struct {
	atom string
	list []*sx
}

func parseSX(s string) []*sx {
	var stack [][]*sx
	cur := []*sx{}
	i := 0
	for i < len(s) {
		c := s[i]
		switch {
		case c == '(':
			stack = append(stack, cur)
			cur = []*sx{}
			i++
		case c == ')':
			if len(stack) == 0 {
				return cur
			}
			n := &sx{list: cur}
			cur = append(stack[len(stack)-1], n)
			stack = stack[:len(stack)-1]
			i++
		case c == ' ' || c == '\n' || c == '\t' || c == '\r':
			i++
		case c == '|':
			j := strings.IndexByte(s[i+1:], '|')
			if j < 0 {
				return cur
			}
			cur = append(cur, &sx{atom: s[i : i+j+2]})
			i += j + 2
		case c == '"':
			j := strings.IndexByte(s[i+1:], '"')
			if j < 0 {
				return cur
			}
			cur = append(cur, &sx{atom: s[i : i+j+2]})
			i += j + 2
		default:
			j := i
			for j < len(s) && !strings.ContainsRune("() \n\t\r", rune(s[j])) {
				j++
			}
			cur = append(cur, &sx{atom: s[i:j]})
			i = j
		}
	}
	return cur
}

func sxValue(v *sx) (string, bool) {
	if v.atom != "" {
		return v.atom, true
	}
	// (- 5)
	if len(v.list) == 2 && v.list[0].atom == "-" && v.list[1].atom != "" {
		return "-" + v.list[1].atom, true
	}
	return "", false
}

// modelValues extracts the values of the obligation's replay terms from the solver output.
func modelValues(o *Obligation) map[string]string {
	out := map[string]string{}
	if len(o.ValNames) == 0 {
		return out
	}
	i := strings.Index(o.Model, "\n")
	if i < 0 {
		return out
	}
	top := parseSX(o.Model[i+1:])
	if len(top) == 0 || top[0].list == nil {
		return out
	}
	pairs := top[0].list
	for k, p := range pairs {
		if k >= len(o.ValNames) || len(p.list) != 2 {
			continue
		}
		if v, ok := sxValue(p.list[1]); ok {
			out[o.ValNames[k]] = v
		}
	}
	return out
}

func runReplay(root string, rs *ReplaySpec, id string, o *Obligation, rec map[string]any) (bool, string) {
	vals := modelValues(o)
	rec["model_values"] = vals
	if len(vals) == 0 {
		return false, "no model values"
	}
	tdata, err := os.ReadFile(filepath.Join(root, "replay", rs.Template))
	if err != nil {
		return false, err.Error()
	}
	funcs := template.FuncMap{
		"int": func(name string) string {
			if v, ok := vals[name]; ok {
				return v
			}
			return "0"
		},
		"bool": func(name string) string {
			if v, ok := vals[name]; ok && v == "true" {
				return "true"
			}
			return "false"
		},
	}
	t, err := template.New("replay").Funcs(funcs).Parse(string(tdata))
	if err != nil {
		return false, err.Error()
	}
	var buf bytes.Buffer
	mj, _ := json.Marshal(vals)
	if err := t.Execute(&buf, map[string]any{"Vals": vals, "JSON": string(mj), "Obligation": o.Name, "Kind": o.Kind}); err != nil {
		return false, err.Error()
	}
	tmp, err := os.MkdirTemp("", "govc-replay")
	if err != nil {
		return false, err.Error()
	}
	defer os.RemoveAll(tmp)
	testFile := filepath.Join(tmp, "zz_govc_replay_test.go")
	os.WriteFile(testFile, buf.Bytes(), 0o644)
	repo := repoDir()
	ov := map[string]any{"Replace": map[string]string{filepath.Join(repo, rs.Pkg, "zz_govc_replay_test.go"): testFile}}
	ovb, _ := json.Marshal(ov)
	ovFile := filepath.Join(tmp, "overlay.json")
	os.WriteFile(ovFile, ovb, 0o644)
	// keep a copy of the generated test next to the replay record
	keep := filepath.Join(root, "replays", id, sanitizeFile(o.Name)+"_test.go.txt")
	os.WriteFile(keep, buf.Bytes(), 0o644)
	rec["replay_test"] = keep
	rec["replay_cmd"] = fmt.Sprintf("cd %s && go test -overlay <overlay mapping %s/zz_govc_replay_test.go to the saved test> -vet=off -count=1 -timeout 60s -run TestGovcReplay ./%s", repo, rs.Pkg, rs.Pkg)
	cmd := exec.Command("/bin/sh", "-c", fmt.Sprintf("ulimit -v 8000000; cd %s && go test -overlay %s -v -vet=off -count=1 -timeout 60s -run TestGovcReplay ./%s 2>&1", repo, ovFile, rs.Pkg))
	cmd.Env = append(os.Environ(), "GOFLAGS=-mod=mod", "GOPROXY=off", "GOSUMDB=off", "GOTOOLCHAIN=local")
	out, _ := cmd.CombinedOutput()
	s := string(out)
	return strings.Contains(s, "REPLAY-REPRODUCED"), s
}

package main

import (
	"go/types"

	"golang.org/x/tools/go/ssa"
)

// Immutable package-level variables: assigned only by the package initialiser.
// They are read as constants; error values made by errors.New / fmt.Errorf there are non-nil.

type globalInfo struct {
	immutable bool
	nonNil    bool
	constVal  *ssa.Const
}

func (E *Env) globalInfoOf(g *ssa.Global) *globalInfo {
	if E.globals == nil {
		E.globals = map[*ssa.Global]*globalInfo{}
		E.scanGlobals()
	}
	if gi, ok := E.globals[g]; ok {
		return gi
	}
	return &globalInfo{}
}

func (E *Env) scanGlobals() {
	storesOutsideInit := map[*ssa.Global]bool{}
	initStore := map[*ssa.Global][]ssa.Value{}
	addrTaken := map[*ssa.Global]bool{}
	for _, fn := range E.P.allFunctions() {
		isInit := fn.Name() == "init" || fn.Synthetic == "package initializer"
		for _, b := range fn.Blocks {
			for _, ins := range b.Instrs {
				switch i := ins.(type) {
				case *ssa.Store:
					if g, ok := i.Addr.(*ssa.Global); ok {
						if isInit {
							initStore[g] = append(initStore[g], i.Val)
						} else {
							storesOutsideInit[g] = true
						}
					}
					if g, ok := i.Val.(*ssa.Global); ok {
						addrTaken[g] = true
					}
				case *ssa.UnOp:
				default:
					// any other use of the global's address (call argument, field address of a struct global, ...)
					for _, op := range ins.Operands(nil) {
						if op == nil || *op == nil {
							continue
						}
						if g, ok := (*op).(*ssa.Global); ok {
							if _, isFA := ins.(*ssa.FieldAddr); isFA {
								addrTaken[g] = true
							} else if _, isCall := ins.(ssa.CallInstruction); isCall {
								addrTaken[g] = true
							} else if _, isIA := ins.(*ssa.IndexAddr); isIA {
								addrTaken[g] = true
							}
						}
					}
				}
			}
		}
	}
	for _, sp := range E.P.SPkgs {
		for _, m := range sp.Members {
			g, ok := m.(*ssa.Global)
			if !ok {
				continue
			}
			gi := &globalInfo{}
			E.globals[g] = gi
			if storesOutsideInit[g] || addrTaken[g] || g.Name() == "init$guard" {
				continue
			}
			gi.immutable = true
			if len(initStore[g]) == 1 {
				switch v := initStore[g][0].(type) {
				case *ssa.Call:
					if f, ok := v.Call.Value.(*ssa.Function); ok {
						switch externKey(f) {
						case "fmt.Errorf", "errors.New":
							gi.nonNil = true
						}
					}
				case *ssa.Const:
					gi.constVal = v
				case *ssa.MakeInterface:
					if _, ok := v.X.(*ssa.Alloc); ok {
						gi.nonNil = true
					}
				case *ssa.Alloc:
					gi.nonNil = true
				}
			}
		}
	}
}

func (P *Program) allFunctions() []*ssa.Function {
	var out []*ssa.Function
	seen := map[*ssa.Function]bool{}
	var add func(f *ssa.Function)
	add = func(f *ssa.Function) {
		if f == nil || seen[f] {
			return
		}
		seen[f] = true
		out = append(out, f)
		for _, a := range f.AnonFuncs {
			add(a)
		}
	}
	for _, f := range P.Funcs {
		add(f)
	}
	for _, sp := range P.SPkgs {
		for _, m := range sp.Members {
			if f, ok := m.(*ssa.Function); ok {
				add(f)
			}
		}
	}
	return out
}

// immutableGlobalTerm: the constant standing for an immutable global, or nil.
func (X *Exec) immutableGlobalTerm(g *ssa.Global) *Term {
	gi := X.E.globalInfoOf(g)
	if !gi.immutable {
		return nil
	}
	ts := X.E.TS
	T := g.Type().(*types.Pointer).Elem()
	if gi.constVal != nil {
		return X.constTerm(gi.constVal).T
	}
	srt := X.E.SortOf(T)
	name := "gconst~" + shortPkg(g.Pkg.Pkg.Path()) + "." + g.Name()
	t := ts.Const(name, srt)
	if gi.nonNil {
		ts.AddAxiomOnce(name, func() *Term {
			if srt == SIface {
				return ts.Not(ts.Eq(t, X.E.IfaceNil()))
			}
			return ts.Not(ts.Eq(t, ts.IntLit(0)))
		})
	}
	X.ImmutableGlobals[name] = true
	return t
}

func (E *Env) debugGlobals() {
	E.globalInfoOf(nil)
	for g, gi := range E.globals {
		if g != nil && g.Pkg != nil && shortPkg(g.Pkg.Pkg.Path()) == "eioparser" {
			println(g.Name(), gi.immutable, gi.nonNil)
		}
	}
}

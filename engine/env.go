package main

import (
	"fmt"
	"go/types"
	"math/big"
	"regexp"
	"strings"

	"golang.org/x/tools/go/ssa"
)

// Env ties a loaded program to a term store: sorts of Go types, heap component names, type ids.
type Env struct {
	P  *Program
	TS *TermStore

	sorts    map[string]*Sort // by types.TypeString
	SliceS   *Sort
	typeIDs  map[string]int
	typeList   []types.Type
	implIfaces map[string]types.Type
	strLits  map[string]*Term
	Specs    *SpecDB
	Warnings []string
	warned   map[string]bool
	boxTypes map[string]types.Type
	globals  map[*ssa.Global]*globalInfo
	specDeps map[string][]heapDep
	specTrial map[string]bool
	BV       bool // bit-vector / IEEE float mode
}

func NewEnv(P *Program) *Env {
	E := &Env{P: P, TS: NewTermStore(), sorts: map[string]*Sort{}, typeIDs: map[string]int{}, strLits: map[string]*Term{}, warned: map[string]bool{}, boxTypes: map[string]types.Type{}, specDeps: map[string][]heapDep{}, specTrial: map[string]bool{}}
	E.SliceS = E.TS.NewDatatype("Slice", []DTField{{"s.arr", SInt}, {"s.off", SInt}, {"s.len", SInt}, {"s.cap", SInt}})
	return E
}

func (E *Env) warn(format string, a ...any) {
	s := fmt.Sprintf(format, a...)
	if !E.warned[s] {
		E.warned[s] = true
		E.Warnings = append(E.Warnings, s)
	}
}

var (
	byteRe = regexp.MustCompile(`\bbyte\b`)
	runeRe = regexp.MustCompile(`\brune\b`)
	anyRe  = regexp.MustCompile(`\bany\b`)
)

// typeKey: canonical text of a type (byte = uint8, rune = int32, any = interface{}).
func typeKey(t types.Type) string {
	s := typeKey0(t)
	s = byteRe.ReplaceAllString(s, "uint8")
	s = runeRe.ReplaceAllString(s, "int32")
	s = anyRe.ReplaceAllString(s, "interface{}")
	return s
}

func typeKey0(t types.Type) string {
	return types.TypeString(t, func(p *types.Package) string {
		if p == nil {
			return ""
		}
		if strings.HasPrefix(p.Path(), modPath) {
			return shortPkg(p.Path())
		}
		return p.Path()
	})
}

func (E *Env) SortOf(t types.Type) *Sort {
	k := typeKey(t)
	if s, ok := E.sorts[k]; ok {
		return s
	}
	s := E.sortOf(t, k)
	E.sorts[k] = s
	return s
}

func (E *Env) sortOf(t types.Type, key string) *Sort {
	switch u := t.(type) {
	case *types.Alias:
		return E.SortOf(types.Unalias(t))
	case *types.Named:
		if _, ok := u.Underlying().(*types.Struct); ok {
			return E.structSort(u.Underlying().(*types.Struct), key)
		}
		return E.SortOf(u.Underlying())
	case *types.TypeParam:
		return E.TS.NewUSort("TP_" + sanitize(u.Obj().Name()))
	case *types.Basic:
		switch {
		case u.Info()&types.IsBoolean != 0:
			return SBool
		case u.Info()&types.IsInteger != 0:
			if E.BV {
				w, _ := intBits(t)
				if w > 0 {
					return BVSort(w)
				}
			}
			return SInt
		case u.Info()&types.IsFloat != 0:
			if E.BV {
				return fpSortOf(t)
			}
			return SReal
		case u.Info()&types.IsString != 0:
			return SStr
		case u.Kind() == types.UnsafePointer:
			return SInt
		case u.Kind() == types.UntypedNil:
			return SInt
		}
		return E.TS.NewUSort("B_" + sanitize(key))
	case *types.Pointer, *types.Map, *types.Chan, *types.Signature:
		return SInt
	case *types.Slice:
		return E.SliceS
	case *types.Interface:
		return SIface
	case *types.Struct:
		return E.structSort(u, key)
	case *types.Array:
		return ArraySort(SInt, E.SortOf(u.Elem()))
	case *types.Tuple:
		panic("sortOf tuple")
	}
	panic("sortOf: unhandled type " + key)
}

func (E *Env) structSort(st *types.Struct, key string) *Sort {
	name := "S_" + sanitize(key)
	if len(name) > 80 {
		name = fmt.Sprintf("%s~%d", name[:60], len(E.sorts))
	}
	var fields []DTField
	for i := 0; i < st.NumFields(); i++ {
		f := st.Field(i)
		fields = append(fields, DTField{Sel: name + "." + sanitize(f.Name()) + fmt.Sprint(i), Sort: E.SortOf(f.Type())})
	}
	if len(fields) == 0 {
		fields = append(fields, DTField{Sel: name + ".$unit", Sort: SBool})
	}
	return E.TS.NewDatatype(name, fields)
}

// ---------------------------------------------------------------------------
// heap component names

func structOf(t types.Type) *types.Struct {
	st, _ := t.Underlying().(*types.Struct)
	return st
}

// FieldHeap: name and sort of the heap array holding field i of struct type T (objects by Ref).
func (E *Env) FieldHeap(T types.Type, i int) (string, *Sort) {
	st := structOf(T)
	f := st.Field(i)
	return "H|" + sanitize(typeKey(T)) + "|" + f.Name(), ArraySort(SInt, E.SortOf(f.Type()))
}

// CellHeap: boxed cells for pointers to non-struct, non-array types.
func (E *Env) CellHeap(T types.Type) (string, *Sort) {
	return "C|" + sanitize(typeKey(T)), ArraySort(SInt, E.SortOf(T))
}

// ElemHeap: backing arrays of element type T: array-id -> index -> value.
func (E *Env) ElemHeap(T types.Type) (string, *Sort) {
	return "E|" + sanitize(typeKey(T)), ArraySort(SInt, ArraySort(SInt, E.SortOf(T)))
}

func (E *Env) MapHeaps(m *types.Map) (present, val, ln string, ps, vs *Sort) {
	k := sanitize(typeKey(m.Key())) + "|" + sanitize(typeKey(m.Elem()))
	ks := E.SortOf(m.Key())
	return "MP|" + k, "MV|" + k, "ML|" + k, ArraySort(SInt, ArraySort(ks, SBool)), ArraySort(SInt, ArraySort(ks, E.SortOf(m.Elem())))
}

func (E *Env) LockHeap(T types.Type, field string) (string, *Sort) {
	return "LK|" + sanitize(typeKey(T)) + "|" + field, ArraySort(SInt, SInt)
}

const AllocHeap = "alloc"

// ---------------------------------------------------------------------------
// integer ranges

func intRange(t types.Type) (lo, hi *big.Int, ok bool) {
	b, isb := t.Underlying().(*types.Basic)
	if !isb || b.Info()&types.IsInteger == 0 {
		return nil, nil, false
	}
	bits := 64
	signed := true
	switch b.Kind() {
	case types.Int8:
		bits = 8
	case types.Int16:
		bits = 16
	case types.Int32:
		bits = 32
	case types.Int, types.Int64:
		bits = 64
	case types.Uint8:
		bits, signed = 8, false
	case types.Uint16:
		bits, signed = 16, false
	case types.Uint32:
		bits, signed = 32, false
	case types.Uint, types.Uint64, types.Uintptr:
		bits, signed = 64, false
	case types.UntypedInt, types.UntypedRune:
		return nil, nil, false
	}
	one := big.NewInt(1)
	if signed {
		hi = new(big.Int).Sub(new(big.Int).Lsh(one, uint(bits-1)), one)
		lo = new(big.Int).Neg(new(big.Int).Lsh(one, uint(bits-1)))
	} else {
		lo = big.NewInt(0)
		hi = new(big.Int).Sub(new(big.Int).Lsh(one, uint(bits)), one)
	}
	return lo, hi, true
}

func intBits(t types.Type) (bits int, signed bool) {
	lo, hi, ok := intRange(t)
	if !ok {
		return 0, true
	}
	return new(big.Int).Add(new(big.Int).Sub(hi, lo), big.NewInt(1)).BitLen() - 1, lo.Sign() < 0
}

// wrap brings a mathematical integer into the range of type t (two's complement), only emitted
// for types narrower than 64 bits and for explicit conversions.
func (E *Env) wrap(x *Term, t types.Type) *Term {
	lo, hi, ok := intRange(t)
	if !ok {
		return x
	}
	ts := E.TS
	if x.Op == "int" {
		m := new(big.Int).Add(new(big.Int).Sub(hi, lo), big.NewInt(1))
		v := new(big.Int).Sub(x.Int, lo)
		v.Mod(v, m)
		v.Add(v, lo)
		return ts.BigLit(v)
	}
	m := ts.BigLit(new(big.Int).Add(new(big.Int).Sub(hi, lo), big.NewInt(1)))
	if lo.Sign() == 0 {
		return ts.Mod(x, m)
	}
	// ((x - lo) mod m) + lo
	return ts.Add(ts.Mod(ts.Sub(x, ts.BigLit(lo)), m), ts.BigLit(lo))
}

func (E *Env) inRange(x *Term, t types.Type) *Term {
	lo, hi, ok := intRange(t)
	if !ok {
		return E.TS.True()
	}
	return E.TS.And(E.TS.Le(E.TS.BigLit(lo), x), E.TS.Le(x, E.TS.BigLit(hi)))
}

// ---------------------------------------------------------------------------
// strings

func (E *Env) StrLen(s *Term) *Term { return E.TS.App("str.len", SInt, s) }
func (E *Env) StrAt(s, i *Term) *Term {
	return E.TS.App("str.at", SInt, s, i)
}

func (E *Env) StrLit(v string) *Term {
	if t, ok := E.strLits[v]; ok {
		return t
	}
	ts := E.TS
	name := fmt.Sprintf("strlit!%d", len(E.strLits))
	t := ts.Const(name, SStr)
	E.strLits[v] = t
	ax := []*Term{ts.Eq(E.StrLen(t), ts.IntLit(int64(len(v))))}
	if len(v) <= 64 {
		for i := 0; i < len(v); i++ {
			ax = append(ax, ts.Eq(E.StrAt(t, ts.IntLit(int64(i))), ts.IntLit(int64(v[i]))))
		}
	}
	ts.AddAxiom(name, ts.And(ax...))
	if len(v) <= 8 {
		// extensionality against a short literal: a string with this length and these bytes IS the literal (without
		// it `s != "/"` is satisfiable by a second string with the same bytes)
		s := ts.BoundVar("s", SStr)
		hyp := []*Term{ts.Eq(E.StrLen(s), ts.IntLit(int64(len(v))))}
		for i := 0; i < len(v); i++ {
			hyp = append(hyp, ts.Eq(E.StrAt(s, ts.IntLit(int64(i))), ts.IntLit(int64(v[i]))))
		}
		ts.AddAxiom(name, ts.Forall([]*Term{s}, ts.Implies(ts.And(hyp...), ts.Eq(s, t)), []*Term{E.StrLen(s)}))
	}
	return t
}

// StrEq: equality of strings. Against a short literal it is expanded into length and bytes
// (exact, quantifier-free); otherwise sort equality with extensionality available as an axiom.
func (E *Env) StrEq(a, b *Term) *Term {
	ts := E.TS
	lit := func(x *Term) (string, bool) {
		for v, t := range E.strLits {
			if t == x {
				return v, true
			}
		}
		return "", false
	}
	if a == b {
		return ts.True()
	}
	la, oka := lit(a)
	lb, okb := lit(b)
	if oka && okb {
		return ts.Bool(la == lb)
	}
	if okb && !oka {
		a, b, la, oka = b, a, lb, true
	}
	if oka && len(la) <= 64 {
		// b == literal  <=>  same length and bytes; link to sort equality both ways
		conj := []*Term{ts.Eq(E.StrLen(b), ts.IntLit(int64(len(la))))}
		for i := 0; i < len(la); i++ {
			conj = append(conj, ts.Eq(E.StrAt(b, ts.IntLit(int64(i))), ts.IntLit(int64(la[i]))))
		}
		return ts.And(ts.And(conj...), ts.Eq(a, b))
	}
	return ts.Eq(a, b)
}

// strExtensionality is attached to str.len so that every query using strings sees it.
func (E *Env) installStringAxioms() {
	ts := E.TS
	s := ts.BoundVar("s", SStr)
	ts.DeclareFunc("str.len", []*Sort{SStr}, SInt)
	ts.DeclareFunc("str.at", []*Sort{SStr, SInt}, SInt)
	ts.AddAxiom("str.len", ts.Forall([]*Term{s}, ts.Le(ts.IntLit(0), E.StrLen(s)), []*Term{E.StrLen(s)}))
	s2 := ts.BoundVar("s", SStr)
	i := ts.BoundVar("i", SInt)
	at := E.StrAt(s2, i)
	ts.AddAxiom("str.at", ts.Forall([]*Term{s2, i}, ts.And(ts.Le(ts.IntLit(0), at), ts.Le(at, ts.IntLit(255))), []*Term{at}))
}

// ---------------------------------------------------------------------------
// interfaces: boxing of dynamic values

func (E *Env) TypeID(t types.Type) int {
	k := typeKey(t)
	if id, ok := E.typeIDs[k]; ok {
		return id
	}
	id := len(E.typeIDs) + 1
	E.typeIDs[k] = id
	E.typeList = append(E.typeList, t)
	for _, it := range E.implIfaces {
		E.implFact(t, id, it)
	}
	return id
}

// Implements: does the dynamic type with this tag implement interface type I? An uninterpreted predicate of the tag,
// with its value fixed for every concrete type the run knows by name (method sets are decided by go/types).
func (E *Env) Implements(tag *Term, I types.Type) *Term {
	k := typeKey(I)
	if _, ok := E.implIfaces[k]; !ok {
		if E.implIfaces == nil {
			E.implIfaces = map[string]types.Type{}
		}
		E.implIfaces[k] = I
		for _, t := range E.typeList {
			E.implFact(t, E.typeIDs[typeKey(t)], I)
		}
	}
	return E.TS.App("impl~"+sanitize(k), SBool, tag)
}

func (E *Env) implFact(t types.Type, id int, I types.Type) {
	if _, isI := t.Underlying().(*types.Interface); isI {
		return
	}
	if _, isTP := t.(*types.TypeParam); isTP {
		return
	}
	it, ok := I.Underlying().(*types.Interface)
	if !ok {
		return
	}
	name := "impl~" + sanitize(typeKey(I))
	f := E.TS.App(name, SBool, E.TS.IntLit(int64(id)))
	if types.Implements(t, it) {
		E.TS.AddAxiom(name, f)
	} else {
		E.TS.AddAxiom(name, E.TS.Not(f))
	}
}

func (E *Env) IfaceNil() *Term {
	n := E.TS.Const("iface.nil", SIface)
	E.TS.AddAxiomOnce("iface.nil", func() *Term { return E.TS.Eq(E.IfaceTag(n), E.TS.IntLit(0)) })
	return n
}
func (E *Env) IfaceTag(x *Term) *Term { return E.TS.App("iface.tag", SInt, x) }

// Box: dynamic value of concrete type t as an interface value.
func (E *Env) Box(v *Term, t types.Type) *Term {
	ts := E.TS
	k := sanitize(typeKey(t))
	bn, un := "box|"+k, "unbox|"+k
	s := E.SortOf(t)
	E.boxTypes[k] = t
	if _, ok := ts.Funcs[bn]; !ok {
		ts.DeclareFunc(bn, []*Sort{s}, SIface)
		ts.DeclareFunc(un, []*Sort{SIface}, s)
		x := ts.BoundVar("x", s)
		bx := ts.App(bn, SIface, x)
		ts.AddAxiom(bn, ts.Forall([]*Term{x}, ts.And(ts.Eq(ts.App(un, s, bx), x), ts.Eq(E.IfaceTag(bx), ts.IntLit(int64(E.TypeID(t))))), []*Term{bx}))
	}
	return ts.App(bn, SIface, v)
}

func (E *Env) Unbox(x *Term, t types.Type) *Term {
	ts := E.TS
	k := sanitize(typeKey(t))
	s := E.SortOf(t)
	E.Box(ts.Const("boxdummy~"+k, s), t) // make sure the functions and axiom exist
	return ts.App("unbox|"+k, s, x)
}

var axiomOnce = map[string]bool{}

func (ts *TermStore) AddAxiomOnce(symbol string, f func() *Term) {
	if axiomOnce[symbol] {
		return
	}
	axiomOnce[symbol] = true
	ts.AddAxiom(symbol, f())
}

// ElemIdx: absolute position off+i of element i of a slice. It is wrapped in an uninterpreted function with the
// defining axiom idx(o,i) = o+i so that quantifier triggers over element reads do not contain arithmetic
// (solvers normalise sums before matching, which makes patterns such as (select a (+ off j)) miss).
func (E *Env) ElemIdx(off, i *Term) *Term {
	ts := E.TS
	if off.Op == "int" && off.Int.Sign() == 0 {
		return i
	}
	if off.Op == "int" && i.Op == "int" {
		return ts.Add(off, i)
	}
	if _, ok := ts.Funcs["elem.idx"]; !ok {
		ts.DeclareFunc("elem.idx", []*Sort{SInt, SInt}, SInt)
		o := ts.BoundVar("o", SInt)
		k := ts.BoundVar("k", SInt)
		app := ts.App("elem.idx", SInt, o, k)
		ts.AddAxiom("elem.idx", ts.Forall([]*Term{o, k}, ts.Eq(app, ts.Add(o, k)), []*Term{app}))
	}
	return ts.App("elem.idx", SInt, off, i)
}

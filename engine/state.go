package main

import (
	"fmt"
	"go/types"
	"sort"
	"strings"

	"golang.org/x/tools/go/ssa"
)

// Cell: a local variable (go/ssa `local T (name)` Alloc in NaiveForm) of one frame activation.
type Cell struct {
	ID    int
	Name  string
	Type  types.Type // type of the content
	Alloc *ssa.Alloc
}

// Addr: a Go-side (non first-class) address: a root plus a path of field/array selections.
type Addr struct {
	Kind int
	Cell *Cell      // AddrCell
	Ref  *Term      // AddrObj: pointer (Int) to an object of type ObjT
	ObjT types.Type // AddrObj: pointee type; AddrElem: element type
	Arr  *Term      // AddrElem: backing array id
	Idx  *Term      // AddrElem: absolute index in the backing array
	Glob *ssa.Global
	Path []PathElem
	// type of the location this address denotes
	T types.Type
}

const (
	AddrCell = iota
	AddrObj
	AddrElem
	AddrGlobal
)

type PathElem struct {
	Field int   // struct field index, or -1
	Index *Term // array index (for [N]T values inside a value), or nil
}

// Val: value of an ssa.Value during symbolic execution.
type Val struct {
	T     *Term      // first-class value
	Tuple []*Val     // multi-value
	A     *Addr      // pointer value kept as a Go-side address
	GT    types.Type // Go type (may be nil for spec-only values)
	Clo   *Closure   // function value known to be this closure / function
	Iter  *iterRec   // range iterator
	Row   *Term      // spec functions: the backing array of a slice parameter, passed as a hidden argument
}

type Closure struct {
	Fn       *ssa.Function
	Bindings []*Val // values of free variables (cell addresses in NaiveForm)
}

// State: the mutable symbolic state; persistent-by-copy.
type State struct {
	BR    *Term // branch conditions only (no assumptions): identifies the paths merged into this state
	PC    *Term
	Heaps map[string]*Term
	Cells map[*Cell]*Term
	// Go-side knowledge that survives only while all merged states agree
	Clos     map[*Term]*Closure // func-value term -> closure
	Snap     *State             // snapshot taken by a `callsite ... snapshot` clause
	CellAddr map[*Cell]*Addr    // pointer-typed cells currently holding a Go-side (interior) address
	Defers   []*DeferRec
	Dead     bool
	Stable   []stableRec // heap cells only this function's own stores can change (see ownedCell)
	Epoch    int         // id of the last havoc-everything event (0 = none): names never touched since read as fresh per epoch
}

type DeferRec struct {
	Instr *ssa.Defer
	Frame *Frame
	Guard *Term // nil = unconditional
	Args  []*Val
	Fn    *Val
}

func (s *State) Clone() *State {
	n := &State{BR: s.BR, PC: s.PC, Heaps: make(map[string]*Term, len(s.Heaps)), Cells: make(map[*Cell]*Term, len(s.Cells)), Clos: make(map[*Term]*Closure, len(s.Clos)), Dead: s.Dead, Epoch: s.Epoch}
	for k, v := range s.Heaps {
		n.Heaps[k] = v
	}
	for k, v := range s.Cells {
		n.Cells[k] = v
	}
	for k, v := range s.Clos {
		n.Clos[k] = v
	}
	n.Defers = append([]*DeferRec{}, s.Defers...)
	n.Stable = append([]stableRec{}, s.Stable...)
	n.Snap = s.Snap
	if len(s.CellAddr) > 0 {
		n.CellAddr = make(map[*Cell]*Addr, len(s.CellAddr))
		for k, v := range s.CellAddr {
			n.CellAddr[k] = v
		}
	}
	return n
}

// heap access: a component never written or read before is its pre-state constant.
func (X *Exec) heap(s *State, name string, srt *Sort) *Term {
	if X.heapTrace != nil {
		X.heapTrace[name] = srt
	}
	if t, ok := s.Heaps[name]; ok {
		return t
	}
	if s.Epoch != 0 && !strings.HasPrefix(name, "LK|") && !strings.HasPrefix(name, "GH|") {
		return X.heapAtEpoch(name, srt, s.Epoch)
	}
	t := X.preHeap(name, srt)
	return t
}

// heapAtEpoch: the value of a component that was not written since havoc-everything event `e`. An epoch created by
// merging two states of different epochs is the ite of the two (so facts known on either side survive the merge).
func (X *Exec) heapAtEpoch(name string, srt *Sort, e int) *Term {
	if e == 0 {
		return X.preHeap(name, srt)
	}
	k := fmt.Sprintf("%s@e%d", name, e)
	if t, ok := X.epochHeaps[k]; ok {
		return t
	}
	X.heapSorts[name] = srt
	var t *Term
	if m := X.epochMerge[e]; m != nil {
		ta, tb := X.heapAtEpoch(name, srt, m.a), X.heapAtEpoch(name, srt, m.b)
		if ta == tb {
			t = ta
		} else {
			t = X.E.TS.Ite(m.sel, ta, tb)
		}
	} else {
		t = X.E.TS.Const(sanitize(k), srt)
	}
	X.epochHeaps[k] = t
	return t
}

type stableRec struct {
	Heap  string
	Sort  *Sort
	Ref   *Term
	Alloc *ssa.Alloc // identity across runs (terms are renumbered per run)
	// a field of a struct this function allocated and has not published yet (see unpublishedStruct): dropped when the
	// allocating function returns
	Unpublished bool
}

type epochMergeRec struct {
	sel  *Term
	a, b int
}

func (X *Exec) preHeap(name string, srt *Sort) *Term {
	if t, ok := X.pre[name]; ok {
		return t
	}
	if X.LockMode && strings.HasPrefix(name, "LK|") {
		// lock mode: the calling goroutine holds no lock on entry except those named by `holds`
		t := X.E.TS.ConstArray(srt, X.E.TS.IntLit(0))
		X.pre[name] = t
		X.heapSorts[name] = srt
		return t
	}
	cn := sanitize(name) + "@pre"
	if strings.HasPrefix(name, "GH|") {
		// function-local ghosts of different contracts may share a name (one term store per process)
		cn = sanitize(name) + "$" + sanitize(srt.Name) + "@pre"
	}
	t := X.E.TS.Const(cn, srt)
	X.pre[name] = t
	X.heapSorts[name] = srt
	return t
}

func (X *Exec) setHeap(s *State, name string, srt *Sort, v *Term) {
	X.heapSorts[name] = srt
	if _, ok := X.pre[name]; !ok {
		X.preHeap(name, srt)
	}
	s.Heaps[name] = v
}

// merge combines states reaching one program point over disjoint path conditions.
func (X *Exec) merge(states []*State) *State {
	ts := X.E.TS
	var live []*State
	for _, s := range states {
		if s != nil && !s.Dead && !isFalse(s.PC) {
			live = append(live, s)
		}
	}
	if len(live) == 0 {
		return &State{PC: ts.False(), Heaps: map[string]*Term{}, Cells: map[*Cell]*Term{}, Clos: map[*Term]*Closure{}, Dead: true}
	}
	if len(live) == 1 {
		return live[0].Clone()
	}
	out := live[0].Clone()
	for _, s := range live[1:] {
		out = X.merge2(out, s)
	}
	return out
}

func (X *Exec) merge2(a, b *State) *State {
	ts := X.E.TS
	n := &State{Heaps: map[string]*Term{}, Cells: map[*Cell]*Term{}, Clos: map[*Term]*Closure{}}
	n.PC = ts.Or(a.PC, b.PC)
	n.BR = ts.Or(a.br(ts), b.br(ts))
	n.Epoch = a.Epoch
	// condition selecting a's values: the branch literal on which the two paths diverged
	// (never the whole path condition: that drags quantified assumptions into ite conditions)
	sel := X.divergence(a.br(ts), b.br(ts))
	if isTrue(sel) || isFalse(sel) || a.BR == nil || b.BR == nil {
		sel = X.divergence(a.PC, b.PC)
	}
	pick := func(x, y *Term) *Term {
		if x == y {
			return x
		}
		return ts.Ite(sel, x, y)
	}
	if a.Epoch != b.Epoch {
		X.epochSeq++
		n.Epoch = X.epochSeq
		if X.epochMerge == nil {
			X.epochMerge = map[int]*epochMergeRec{}
		}
		X.epochMerge[n.Epoch] = &epochMergeRec{sel: sel, a: a.Epoch, b: b.Epoch}
	}
	names := map[string]bool{}
	for k := range a.Heaps {
		names[k] = true
	}
	for k := range b.Heaps {
		names[k] = true
	}
	keys := make([]string, 0, len(names))
	for k := range names {
		keys = append(keys, k)
	}
	sort.Strings(keys)
	for _, k := range keys {
		srt := X.heapSorts[k]
		n.Heaps[k] = pick(X.heap(a, k, srt), X.heap(b, k, srt))
	}
	for c, va := range a.Cells {
		if vb, ok := b.Cells[c]; ok {
			n.Cells[c] = pick(va, vb)
		} else {
			n.Cells[c] = va
		}
	}
	for c, vb := range b.Cells {
		if _, ok := a.Cells[c]; !ok {
			n.Cells[c] = vb
		}
	}
	for k, v := range a.Clos {
		if w, ok := b.Clos[k]; !ok || w == v {
			n.Clos[k] = v
		}
	}
	for k, v := range b.Clos {
		if _, ok := a.Clos[k]; !ok {
			n.Clos[k] = v
		}
	}
	for c, aa := range a.CellAddr {
		_, inB := b.Cells[c]
		if ba, ok := b.CellAddr[c]; (ok && ba == aa) || !inB {
			if n.CellAddr == nil {
				n.CellAddr = map[*Cell]*Addr{}
			}
			n.CellAddr[c] = aa
		}
	}
	for c, ba := range b.CellAddr {
		if _, inA := a.Cells[c]; !inA {
			if n.CellAddr == nil {
				n.CellAddr = map[*Cell]*Addr{}
			}
			n.CellAddr[c] = ba
		}
	}
	if a.Snap == b.Snap {
		n.Snap = a.Snap
	}
	// defers: must agree (same records); otherwise guard them
	n.Defers = mergeDefers(ts, a, b)
	n.Stable = append([]stableRec{}, a.Stable...)
	for _, sb := range b.Stable {
		dup := false
		for _, sa := range a.Stable {
			if sa.Ref == sb.Ref && sa.Heap == sb.Heap {
				dup = true
			}
		}
		if !dup {
			n.Stable = append(n.Stable, sb)
		}
	}
	return n
}

func mergeDefers(ts *TermStore, a, b *State) []*DeferRec {
	same := len(a.Defers) == len(b.Defers)
	if same {
		for i := range a.Defers {
			if a.Defers[i] != b.Defers[i] {
				same = false
				break
			}
		}
	}
	if same {
		return append([]*DeferRec{}, a.Defers...)
	}
	// common prefix kept; the rest guarded by the path condition they came with
	i := 0
	for i < len(a.Defers) && i < len(b.Defers) && a.Defers[i] == b.Defers[i] {
		i++
	}
	out := append([]*DeferRec{}, a.Defers[:i]...)
	guard := func(d *DeferRec, pc *Term) *DeferRec {
		g := pc
		if d.Guard != nil {
			g = ts.And(d.Guard, pc)
		}
		c := *d
		c.Guard = g
		return &c
	}
	for _, d := range a.Defers[i:] {
		out = append(out, guard(d, a.PC))
	}
	for _, d := range b.Defers[i:] {
		out = append(out, guard(d, b.PC))
	}
	return out
}

func (s *State) br(ts *TermStore) *Term {
	if s.BR == nil {
		return ts.True()
	}
	return s.BR
}

// branch: take a control-flow decision (recorded in BR as well as in PC)
func (s *State) branch(ts *TermStore, c *Term) {
	s.BR = ts.And(s.br(ts), c)
	s.assume(ts, c)
}

func (s *State) assume(ts *TermStore, c *Term) {
	s.PC = ts.And(s.PC, c)
	if isFalse(s.PC) {
		s.Dead = true
	}
}

func (a *Addr) String() string {
	switch a.Kind {
	case AddrCell:
		return fmt.Sprintf("cell(%s)%v", a.Cell.Name, a.Path)
	case AddrObj:
		return fmt.Sprintf("obj(%s)%v", typeKey(a.ObjT), a.Path)
	case AddrElem:
		return fmt.Sprintf("elem%v", a.Path)
	}
	return "global"
}

func conjuncts(t *Term) []*Term {
	if t.Op == "and" {
		return t.Args
	}
	return []*Term{t}
}

// divergence: a condition that is true on a's paths and false on b's, as small as possible.
func (X *Exec) divergence(a, b *Term) *Term {
	ts := X.E.TS
	ca, cb := conjuncts(a), conjuncts(b)
	n := 0
	for n < len(ca) && n < len(cb) && ca[n] == cb[n] {
		n++
	}
	da, db := ca[n:], cb[n:]
	inB := map[int]bool{}
	for _, t := range db {
		inB[t.id] = true
	}
	for _, t := range da {
		if inB[ts.Not(t).id] {
			return t
		}
	}
	// disjunctive remainders: look one level down for a complementary literal
	inA := map[int]bool{}
	for _, t := range da {
		inA[t.id] = true
	}
	for _, t := range db {
		if t.Op == "not" && !containsQuant(t) {
			// b asserts not(x); if every alternative of a implies x we cannot tell cheaply - skip
		}
	}
	if len(da) > 0 && len(da) <= 3 {
		allQF := true
		for _, t := range da {
			if containsQuant(t) {
				allQF = false
			}
		}
		if allQF {
			return ts.And(da...)
		}
	}
	var qf []*Term
	for _, t := range da {
		if !containsQuant(t) {
			qf = append(qf, t)
		}
	}
	var qfb []*Term
	for _, t := range db {
		if !containsQuant(t) {
			qfb = append(qfb, t)
		}
	}
	if len(qfb) < len(qf) && len(qfb) > 0 {
		return ts.Not(ts.And(qfb...))
	}
	if len(qf) > 0 {
		return ts.And(qf...)
	}
	if len(qfb) > 0 {
		return ts.Not(ts.And(qfb...))
	}
	return ts.And(da...)
}

#!/usr/bin/env python3
# design_status.py: regenerates the status table of DESIGN.md section 10.1 from MANIFEST.json, the check configs and the
# evidence files of the last runs.
import json, re
V = '/verif'
m = json.load(open(f'{V}/MANIFEST.json'))
rows = ['| id | level (MANIFEST) | obligations / discharged | functions | lock-mode functions | bounded stand-ins | known findings hit | quick wall time |', '|---|---|---|---|---|---|---|---|']
for c in m['checks']:
    pid = c['property_id']
    cfg = json.load(open(f'{V}/checks/{pid}.json'))
    try:
        ev = json.load(open(f'{V}/evidence/{pid}.json'))
    except Exception:
        ev = {'coverage': {}, 'wall_s': 0}
    cov = ev['coverage']
    b = ', '.join(f"{x['name']} ({x.get('cases', '?')} cases)" for x in (cov.get('bounded_checks') or [])) or '-'
    kf = len(cov.get('known_findings_hit') or [])
    ls = cov.get('lock_sweep', {}).get('functions_checked')
    lockf = f"{len(cfg.get('lock_functions') or [])}" + (f" + sweep of {ls}" if ls else '')
    rows.append(f"| {pid} | {c['level_claimed']['category']} | {cov.get('obligations')} / {cov.get('discharged')} | {len(cfg.get('functions') or [])} | {lockf} | {b} | {kf} | {ev.get('wall_s', 0):.0f} s |")
for n in m.get('not_applicable', []):
    rows.append(f"| {n['property_id']} | not applicable | - | - | - | - | - | - |")
s = open(f'{V}/DESIGN.md').read()
s = re.sub(r'<!-- STATUS-TABLE-BEGIN -->.*?<!-- STATUS-TABLE-END -->', '<!-- STATUS-TABLE-BEGIN -->\n' + '\n'.join(rows) + '\n<!-- STATUS-TABLE-END -->', s, flags=re.S)
open(f'{V}/DESIGN.md', 'w').write(s)
print('\n'.join(rows))

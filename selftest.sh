#!/bin/sh
# selftest.sh <property> <patch.diff> [expect-violation|expect-silence]
# Applies a patch to a scratch copy of /repo's working tree and runs the property's quick check against it,
# with evidence and replay files written to a scratch root (so /verif/evidence is not disturbed).
id="$1"; patch="$2"; want="${3:-expect-violation}"
d="$(mktemp -d /tmp/govc-selftest-XXXXXX)"
/verif/mkmut.sh "$d/repo" "$patch" || { echo "SELFTEST $id $patch: patch does not apply"; rm -rf "$d"; exit 3; }
mkdir -p "$d/verif"
for f in checks known_findings.txt replay; do ln -s "/verif/$f" "$d/verif/$f"; done
out="$(GOVC_REPO="$d/repo" GOVC_VERIF="$d/verif" GOVC_WORK="$d/smt" /verif/bin/govc check "$id" quick 2>&1)"
rc=$?
echo "$out" | grep -E "VIOLATION|KNOWN-FINDING|obligations," | sed "s|$d|<scratch>|g"
rm -rf "$d"
case "$want" in
 expect-violation) [ $rc -eq 1 ] && { echo "SELFTEST $id $(basename $(dirname $patch)): detected"; exit 0; } || { echo "SELFTEST $id $(basename $(dirname $patch)): MISSED (rc=$rc)"; exit 1; } ;;
 *) [ $rc -eq 0 ] && { echo "SELFTEST $id: silent as expected"; exit 0; } || { echo "SELFTEST $id: FALSE ALARM (rc=$rc)"; exit 1; } ;;
esac

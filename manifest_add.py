#!/usr/bin/env python3
# manifest_add.py <id> <category> <level text> <level note> [design_ref]: registers/updates a claimed property; refreshes hook commits
import json, subprocess, sys
m = json.load(open('/verif/MANIFEST.json'))
if len(sys.argv) > 1:
    pid, cat, text, note = sys.argv[1:5]
    ref = sys.argv[5] if len(sys.argv) > 5 else "DESIGN.md section 5 " + pid
    e = None
    for c in m['checks']:
        if c['property_id'] == pid:
            e = c
    if e is None:
        e = dict(m['checks'][0])
        e['property_id'] = pid
        m['checks'].append(e)
    e['quick_cmd'] = f"/verif/check.sh {pid} quick"
    e['thorough_cmd'] = f"/verif/check.sh {pid} thorough"
    e['evidence_file'] = f"/verif/evidence/{pid}.json"
    e['level_claimed'] = {"category": cat, "text": text, "design_ref": ref}
    e['level_note'] = note
    m['not_applicable'] = [x for x in m['not_applicable'] if x['property_id'] != pid]
    for en in m['engines']:
        if pid not in en['serves_properties']:
            en['serves_properties'].append(pid)
            en['serves_properties'].sort()
    m['checks'].sort(key=lambda c: c['property_id'])
out = subprocess.run(['git', '-C', '/repo', 'log', '--format=%h %s'], capture_output=True, text=True).stdout
m['hooks']['source_commits'] = [l.split()[0] for l in reversed(out.splitlines()) if ' verif hook' in l]
json.dump(m, open('/verif/MANIFEST.json', 'w'), indent=1)
print("claimed:", [c['property_id'] for c in m['checks']], "hooks:", len(m['hooks']['source_commits']))

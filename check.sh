#!/bin/sh
# /verif/check.sh <property id> [quick|thorough]
# Rebuilds nothing but the SSA of /repo's current working tree (the engine binary is built by setup_cmd;
# it is rebuilt here if missing or older than its sources).
export GOFLAGS=-mod=mod GOPROXY=off GOSUMDB=off GOTOOLCHAIN=local
cd /verif || exit 2
if [ ! -x bin/govc ] || [ -n "$(find engine -name '*.go' -newer bin/govc -not -path 'engine/vendor/*' 2>/dev/null | head -1)" ]; then
  (cd engine && GOFLAGS=-mod=vendor go build -o /verif/bin/govc .) || exit 2
fi
id="$1"; tier="${2:-${VERIF_TIER:-quick}}"
work="$(mktemp -d /tmp/govc-$id-XXXXXX)"
GOVC_WORK="$work" ./bin/govc check "$id" "$tier"
rc=$?
rm -rf "$work"
exit $rc

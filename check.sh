#!/bin/sh
# /verif/check.sh <property id> [quick|thorough]
# Rebuilds nothing but the SSA of /repo's current working tree (the engine binary is built by setup_cmd;
# it is rebuilt here if missing or older than its sources).
# A check whose config says "shards": N runs as N processes over disjoint parts of its function sweep; their
# evidence files are merged into evidence/<id>.json.
export GOFLAGS=-mod=mod GOPROXY=off GOSUMDB=off GOTOOLCHAIN=local
cd /verif || exit 2
if [ ! -x bin/govc ] || [ -n "$(find engine -name '*.go' -newer bin/govc -not -path 'engine/vendor/*' 2>/dev/null | head -1)" ]; then
  (cd engine && GOFLAGS=-mod=vendor go build -o /verif/bin/govc .) || exit 2
fi
id="$1"; tier="${2:-${VERIF_TIER:-quick}}"
root="${GOVC_VERIF:-/verif}"
shards="$(python3 -c "import json,sys;print(int(json.load(open('$root/checks/$id.json')).get('shards',1)))" 2>/dev/null || echo 1)"
work="$(mktemp -d /tmp/govc-$id-XXXXXX)"
if [ "$shards" -le 1 ]; then
  GOVC_WORK="$work" ./bin/govc check "$id" "$tier"
  rc=$?
  rm -rf "$work"
  exit $rc
fi
rc=0
i=0
pids=""
while [ $i -lt $shards ]; do
  ( GOVC_SHARD="$i/$shards" GOVC_WORK="$work/s$i" ./bin/govc check "$id" "$tier" > "$work/out.$i" 2>&1; echo $? > "$work/rc.$i" ) &
  pids="$pids $!"
  i=$((i+1))
done
wait $pids
i=0
while [ $i -lt $shards ]; do
  r="$(cat "$work/rc.$i" 2>/dev/null || echo 2)"
  grep -E "^(VIOLATION|KNOWN-FINDING)" "$work/out.$i"
  if [ "$r" -ne 0 ] && [ "$r" -ne 1 ]; then cat "$work/out.$i"; rc=2; fi
  if [ "$r" -eq 1 ] && [ $rc -eq 0 ]; then rc=1; fi
  i=$((i+1))
done
python3 /verif/merge_evidence.py "$root" "$id" "$shards" "$tier"; mrc=$?
if [ $mrc -eq 1 ] && [ $rc -eq 0 ]; then rc=1; elif [ $mrc -gt 1 ]; then rc=2; fi
rm -rf "$work"
exit $rc

#!/bin/sh
# Runner of the bounded exhaustive round-trip harness of the Socket.IO JSON parser.
#
# usage: run_jsonparser_roundtrip.sh <property id>
#
# env: GOVC_REPO   repository to test (default /repo)
#      GOVC_VERIF  directory holding known_findings.txt (default /verif)
#      VERIF_TIER  passed through to the test ("thorough" => depth 3, otherwise depth 2)
#
# The test file jsonparser_roundtrip_test.go (next to this script, i.e. /verif/bounded) is injected into
# $GOVC_REPO/parser/json with `go test -overlay`; nothing is written to the repository.
#
# A failing class c of the harness is KNOWN iff known_findings.txt has a line
#   finding: property=<property id> obligation=bounded.roundtrip.<c> :: <text>
# exit 0 iff every failing class is known, the harness reported a positive number of cases, and go test either
# succeeded or failed because of failing classes (a build failure or a timeout is exit 1 with the output shown).

if [ $# -lt 1 ] || [ -z "$1" ]; then
	echo "usage: $0 <property id> [egrep pattern of the classes that matter for this property]" >&2
	exit 2
fi
PROP=$1
FILTER=${2:-.}
REPO=${GOVC_REPO:-/repo}
VERIF=${GOVC_VERIF:-/verif}
KNOWN="$VERIF/known_findings.txt"

HERE=$(cd "$(dirname "$0")" && pwd) || exit 1
SRC="$HERE/jsonparser_roundtrip_test.go"
if [ ! -f "$SRC" ]; then
	echo "run_jsonparser_roundtrip: $SRC not found" >&2
	exit 1
fi
REPO=$(cd "$REPO" 2>/dev/null && pwd) || { echo "run_jsonparser_roundtrip: repository ${GOVC_REPO:-/repo} not found" >&2; exit 1; }
if [ ! -d "$REPO/parser/json" ]; then
	echo "run_jsonparser_roundtrip: $REPO/parser/json not found" >&2
	exit 1
fi

TMP=$(mktemp -d "${TMPDIR:-/tmp}/govc-bounded.XXXXXX") || exit 1
trap 'rm -rf "$TMP"' EXIT
trap 'rm -rf "$TMP"; exit 1' HUP INT TERM

printf '{"Replace": {"%s": "%s"}}\n' "$REPO/parser/json/zz_govc_bounded_test.go" "$SRC" > "$TMP/ov.json"
OUT="$TMP/out.txt"

(
	cd "$REPO" || exit 1
	GOFLAGS=-mod=mod GOPROXY=off GOSUMDB=off GOTOOLCHAIN=local
	export GOFLAGS GOPROXY GOSUMDB GOTOOLCHAIN
	go test -overlay "$TMP/ov.json" -vet=off -count=1 -timeout 600s -run 'TestGovcBounded$' ./parser/json/
) > "$OUT" 2>&1
STATUS=$?

CLASSES_LINE=$(grep '^BOUNDED-CLASSES ' "$OUT" | tail -n 1)
CASES_LINE=$(grep '^BOUNDED-CASES ' "$OUT" | tail -n 1)
CLASSES=${CLASSES_LINE#BOUNDED-CLASSES }
NCASES=${CASES_LINE#BOUNDED-CASES }
case "$NCASES" in
'' | *[!0-9]*) NCASES=0 ;;
esac

RC=0
NFAILING=0
SHOW=0

if [ -z "$CLASSES_LINE" ]; then
	echo "run_jsonparser_roundtrip: no BOUNDED-CLASSES line (go test exit status $STATUS)"
	RC=1
	SHOW=1
elif [ "$CLASSES" != "-" ]; then
	OLDIFS=$IFS
	IFS=,
	set -- $CLASSES
	IFS=$OLDIFS
	for c in "$@"; do
		[ -n "$c" ] || continue
		NFAILING=$((NFAILING + 1))
		# classes outside this property's concern are decided by the property that owns them
		echo "$c" | grep -Eq "$FILTER" || continue
		TEXT=
		FOUND=1
		if [ -f "$KNOWN" ]; then
			TEXT=$(awk -v p="property=$PROP " -v o="obligation=bounded.roundtrip.$c " '
				index($0, "finding:") == 1 && index($0, p) > 0 && index($0, o) > 0 {
					i = index($0, " :: ")
					if (i > 0) print substr($0, i + 4)
					found = 1
					exit
				}
				END { if (!found) exit 1 }' "$KNOWN")
			FOUND=$?
		fi
		if [ "$FOUND" -eq 0 ]; then
			echo "KNOWN-FINDING: property=$PROP bounded.roundtrip.$c :: $TEXT"
		else
			RC=1
			if ! grep -F "BOUNDED-FAIL $c :: " "$OUT"; then
				echo "BOUNDED-FAIL $c :: (no example line in the output)"
			fi
		fi
	done
fi

if [ "$NCASES" -le 0 ]; then
	RC=1
	SHOW=1
fi
if [ "$STATUS" -ne 0 ] && [ "$NFAILING" -eq 0 ]; then
	# build failure, timeout, crash of the harness: not explained by failing classes
	RC=1
	SHOW=1
fi
if [ "$SHOW" -eq 1 ]; then
	echo "run_jsonparser_roundtrip: go test exit status $STATUS, output:"
	cat "$OUT"
fi

echo "BOUNDED-CASES $NCASES"
exit $RC

package adapter

// Bounded stand-in for property C04 (labelled bounded, never counted as proved): every membership matrix of
// 3 sockets x 3 rooms, every (T, E) pair of target / except room sets, executed on the REAL in-memory adapter.
// Oracle, from the property text: a broadcast aimed at rooms T excluding rooms E reaches exactly the sockets that are in
// some room of T (every socket when T is empty) and in no room of E, once each; room membership is exactly the net
// effect of the joins and leaves so far; a socket that left everything belongs to no room.
// Output protocol: BOUNDED-FAIL <class> :: <case>, BOUNDED-CLASSES <list>, BOUNDED-CASES <n>.

import (
	"fmt"
	"os"
	"sort"
	"strings"
	"testing"

	mapset "github.com/deckarep/golang-set/v2"
	"github.com/karagenc/socket.io-go/parser"
	jsonparser "github.com/karagenc/socket.io-go/parser/json"
	"github.com/karagenc/socket.io-go/parser/json/serializer/stdjson"
)

var govcSids = []SocketID{"s0", "s1", "s2"}
var govcRooms = []Room{"r0", "r1", "r2"}

// a socket whose Join / Leave / Disconnect act on the adapter, as the real server socket's do
type govcSocket struct {
	*TestSocket
	a *inMemoryAdapter
}

func (s *govcSocket) Join(room ...Room) { s.a.AddAll(s.ID(), room) }
func (s *govcSocket) Leave(room Room)   { s.a.Delete(s.ID(), room) }
func (s *govcSocket) Disconnect(close bool) {
	s.a.DeleteAll(s.ID())
	s.a.sockets.(*TestSocketStore).Remove(s.ID())
}

type govcMatrix [3][3]bool // [socket][room]

func govcNew(m govcMatrix, order int) *inMemoryAdapter {
	creator := NewInMemoryAdapterCreator()
	a := creator(NewTestSocketStore(), jsonparser.NewCreator(0, stdjson.New())).(*inMemoryAdapter)
	store := a.sockets.(*TestSocketStore)
	for _, sid := range govcSids {
		store.Set(&govcSocket{NewTestSocket(sid), a})
	}
	switch order {
	case 0: // one AddAll per socket
		for i, sid := range govcSids {
			var rs []Room
			for j, r := range govcRooms {
				if m[i][j] {
					rs = append(rs, r)
				}
			}
			if len(rs) > 0 {
				a.AddAll(sid, rs)
			}
		}
	case 1: // single joins, room-major, with a repeated join in between
		for j := 2; j >= 0; j-- {
			for i := range govcSids {
				if m[i][j] {
					a.AddAll(govcSids[i], []Room{govcRooms[j]})
					a.AddAll(govcSids[i], []Room{govcRooms[j]})
				}
			}
		}
	case 2: // join everything (a repeated room in one call), then leave what is not wanted
		for i, sid := range govcSids {
			any := false
			for j := range govcRooms {
				any = any || m[i][j]
			}
			if !any {
				continue
			}
			a.AddAll(sid, []Room{"r0", "r1", "r0", "r2"})
			for j, r := range govcRooms {
				if !m[i][j] {
					a.Delete(sid, r)
				}
			}
		}
	}
	return a
}

func govcSet(mask int) mapset.Set[Room] {
	s := mapset.NewSet[Room]()
	for j, r := range govcRooms {
		if mask&(1<<j) != 0 {
			s.Add(r)
		}
	}
	return s
}

func govcExpected(m govcMatrix, t, e int) []string {
	var out []string
	for i, sid := range govcSids {
		member := false
		for j := range govcRooms {
			member = member || m[i][j]
		}
		if !member {
			continue // a socket in no room is not known to the adapter at all
		}
		inT, inE := t == 0, false
		for j := range govcRooms {
			if m[i][j] && t&(1<<j) != 0 {
				inT = true
			}
			if m[i][j] && e&(1<<j) != 0 {
				inE = true
			}
		}
		if inT && !inE {
			out = append(out, string(sid))
		}
	}
	return out
}

func govcMembership(a *inMemoryAdapter) (govcMatrix, string) {
	var m govcMatrix
	// both indexes must agree: socket -> rooms (SocketRooms) and room -> sockets (Sockets)
	var bySid, byRoom govcMatrix
	for i, sid := range govcSids {
		if rooms, ok := a.SocketRooms(sid); ok {
			for j, r := range govcRooms {
				bySid[i][j] = rooms.Contains(r)
			}
		}
	}
	for j, r := range govcRooms {
		sids := a.Sockets(mapset.NewSet[Room](r))
		for i, sid := range govcSids {
			byRoom[i][j] = sids.Contains(sid)
		}
	}
	if bySid != byRoom {
		return bySid, fmt.Sprintf("the two indexes disagree: socket->rooms %v, room->sockets %v", bySid, byRoom)
	}
	m = bySid
	return m, ""
}

func TestGovcBounded(t *testing.T) {
	thorough := os.Getenv("VERIF_TIER") == "thorough"
	cases := 0
	fails := map[string][]string{}
	fail := func(class, format string, a ...any) {
		if len(fails[class]) < 3 {
			fails[class] = append(fails[class], fmt.Sprintf(format, a...))
		} else if len(fails[class]) == 3 {
			fails[class] = append(fails[class], "...")
		}
	}
	header := &parser.PacketHeader{Type: parser.PacketTypeEvent, Namespace: "/"}
	for code := 0; code < 512; code++ {
		var m govcMatrix
		for k := 0; k < 9; k++ {
			m[k/3][k%3] = code&(1<<k) != 0
		}
		for order := 0; order < 3; order++ {
			a := govcNew(m, order)
			cases++
			got, why := govcMembership(a)
			if why != "" {
				fail("membership.indexes", "matrix %v built in order %d: %s", m, order, why)
			} else if got != m {
				fail("membership.neteffect", "matrix %v built in order %d: membership is %v", m, order, got)
			}
			if order != 0 && !thorough {
				continue
			}
			store := a.sockets.(*TestSocketStore)
			for tm := 0; tm < 8; tm++ {
				for em := 0; em < 8; em++ {
					cases++
					want := govcExpected(m, tm, em)
					// Broadcast: count deliveries per socket
					count := map[string]int{}
					store.SetSendBuffers(func(sid SocketID, buffers [][]byte) bool { count[string(sid)]++; return true })
					opts := NewBroadcastOptions()
					opts.Rooms, opts.Except = govcSet(tm), govcSet(em)
					h := *header
					a.Broadcast(&h, []any{"e", 1}, opts)
					var gotB []string
					for sid, n := range count {
						gotB = append(gotB, sid)
						if n != 1 {
							fail("broadcast.once", "matrix %v T=%03b E=%03b: socket %s got the broadcast %d times", m, tm, em, sid, n)
						}
					}
					sort.Strings(gotB)
					if strings.Join(gotB, ",") != strings.Join(want, ",") {
						fail("broadcast.recipients", "matrix %v (rows = sockets, columns = rooms) T=%03b E=%03b: broadcast reached [%s], want [%s]", m, tm, em, strings.Join(gotB, ","), strings.Join(want, ","))
					}
					// FetchSockets: same selection
					opts = NewBroadcastOptions()
					opts.Rooms, opts.Except = govcSet(tm), govcSet(em)
					var gotF []string
					for _, so := range a.FetchSockets(opts) {
						gotF = append(gotF, string(so.ID()))
					}
					sort.Strings(gotF)
					if strings.Join(gotF, ",") != strings.Join(want, ",") {
						fail("fetch.recipients", "matrix %v T=%03b E=%03b: FetchSockets returned [%s], want [%s]", m, tm, em, strings.Join(gotF, ","), strings.Join(want, ","))
					}
				}
			}
		}
		// single operations on the matrix: membership afterwards = the net effect
		for i, sid := range govcSids {
			for j, r := range govcRooms {
				a := govcNew(m, 0)
				a.Delete(sid, r)
				cases++
				want := m
				want[i][j] = false
				if got, why := govcMembership(a); why != "" || got != want {
					fail("leave.neteffect", "matrix %v, %s leaves %s: membership is %v (%s), want %v", m, sid, r, got, why, want)
				}
			}
			a := govcNew(m, 0)
			a.DeleteAll(sid)
			cases++
			want := m
			want[i] = [3]bool{}
			if got, why := govcMembership(a); why != "" || got != want {
				fail("leaveall.neteffect", "matrix %v, %s leaves all rooms: membership is %v (%s), want %v", m, sid, got, why, want)
			}
			for rm := 1; rm < 8; rm++ {
				a := govcNew(m, 0)
				var rs []Room
				want := m
				for j, r := range govcRooms {
					if rm&(1<<j) != 0 {
						rs = append(rs, r)
						want[i][j] = true
					}
				}
				a.AddAll(sid, rs)
				cases++
				if got, why := govcMembership(a); why != "" || got != want {
					fail("join.neteffect", "matrix %v, %s joins %v: membership is %v (%s), want %v", m, sid, rs, got, why, want)
				}
			}
		}
		// operations through a selection: SocketsJoin / SocketsLeave / DisconnectSockets (sample of (T,E) in quick)
		for tm := 0; tm < 8; tm++ {
			for em := 0; em < 8; em++ {
				if !thorough && (tm*8+em+code)%7 != 0 {
					continue
				}
				sel := govcExpected(m, tm, em)
				isSel := func(sid SocketID) bool {
					for _, s := range sel {
						if s == string(sid) {
							return true
						}
					}
					return false
				}
				mk := func() *BroadcastOptions {
					o := NewBroadcastOptions()
					o.Rooms, o.Except = govcSet(tm), govcSet(em)
					return o
				}
				a := govcNew(m, 0)
				a.AddSockets(mk(), "r2")
				cases++
				want := m
				for i, sid := range govcSids {
					if isSel(sid) {
						want[i][2] = true
					}
				}
				if got, why := govcMembership(a); why != "" || got != want {
					fail("socketsjoin.neteffect", "matrix %v T=%03b E=%03b SocketsJoin(r2): membership is %v (%s), want %v", m, tm, em, got, why, want)
				}
				a = govcNew(m, 0)
				a.DelSockets(mk(), "r0")
				cases++
				want = m
				for i, sid := range govcSids {
					if isSel(sid) {
						want[i][0] = false
					}
				}
				if got, why := govcMembership(a); why != "" || got != want {
					fail("socketsleave.neteffect", "matrix %v T=%03b E=%03b SocketsLeave(r0): membership is %v (%s), want %v", m, tm, em, got, why, want)
				}
				a = govcNew(m, 0)
				a.DisconnectSockets(mk(), false)
				cases++
				want = m
				for i, sid := range govcSids {
					if isSel(sid) {
						want[i] = [3]bool{}
					}
				}
				if got, why := govcMembership(a); why != "" || got != want {
					fail("disconnectsockets.neteffect", "matrix %v T=%03b E=%03b DisconnectSockets: membership is %v (%s), want %v (a disconnected socket belongs to no room)", m, tm, em, got, why, want)
				}
			}
		}
	}
	var classes []string
	for c, ex := range fails {
		classes = append(classes, c)
		for _, e := range ex {
			fmt.Printf("BOUNDED-FAIL %s :: %s\n", c, e)
		}
	}
	sort.Strings(classes)
	if len(classes) == 0 {
		fmt.Println("BOUNDED-CLASSES -")
	} else {
		fmt.Println("BOUNDED-CLASSES " + strings.Join(classes, ","))
		t.Fail()
	}
	fmt.Printf("BOUNDED-CASES %d\n", cases)
}

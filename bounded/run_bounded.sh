#!/bin/sh
# run_bounded.sh <property id> <package dir relative to the repo> <test file under /verif/bounded> [name]
# Runs a bounded stand-in (an in-package Go test injected with -overlay; nothing is written to the repository) against
# $GOVC_REPO (default /repo). Failing classes listed in known_findings.txt as
#   finding: property=<id> obligation=bounded.<name>.<class> :: text
# are reported as KNOWN-FINDING lines; any other failing class makes the run fail.
export GOFLAGS=-mod=mod GOPROXY=off GOSUMDB=off GOTOOLCHAIN=local
id="$1"; pkg="$2"; file="$3"; name="${4:-$(basename "$file" _test.go)}"
repo="${GOVC_REPO:-/repo}"; verif="${GOVC_VERIF:-/verif}"
d="$(mktemp -d /tmp/govc-bounded-XXXXXX)"
printf '{"Replace":{"%s/%s/zz_govc_bounded_test.go":"/verif/bounded/%s"}}\n' "$repo" "$pkg" "$file" > "$d/ov.json"
(cd "$repo" && go test -overlay "$d/ov.json" -vet=off -v -count=1 -timeout 900s -run 'TestGovcBounded$' "./$pkg/") > "$d/out" 2>&1
grc=$?
classes="$(grep '^BOUNDED-CLASSES ' "$d/out" | head -1 | sed 's/^BOUNDED-CLASSES //')"
cases="$(grep '^BOUNDED-CASES ' "$d/out" | head -1 | sed 's/^BOUNDED-CASES //')"
rc=0
if [ -z "$cases" ] || [ "$cases" -le 0 ] 2>/dev/null; then
  echo "bounded run did not complete:"; tail -40 "$d/out"; rc=1
elif [ "$classes" = "-" ] || [ -z "$classes" ]; then
  [ $grc -eq 0 ] || { tail -40 "$d/out"; rc=1; }
else
  for c in $(echo "$classes" | tr ',' ' '); do
    line="$(grep "^finding:" "$verif/known_findings.txt" 2>/dev/null | grep "property=$id " | grep -F "obligation=bounded.$name.$c " | head -1)"
    if [ -n "$line" ]; then
      echo "KNOWN-FINDING: property=$id bounded.$name.$c :: ${line#* :: }"
    else
      grep "^BOUNDED-FAIL $c " "$d/out"
      rc=1
    fi
  done
fi
echo "BOUNDED-CASES ${cases:-0}"
rm -rf "$d"
exit $rc

package jsonparser

// Bounded exhaustive round-trip harness for the Socket.IO JSON parser (govc, /verif/bounded).
//
// The file is injected into package jsonparser with `go test -overlay`; it lives in /verif, not in the repository.
// It emits packets the way serverSocket.emit / sendAckPacket do (v := []any{eventName, args...}; Encode(header, &v)),
// feeds the frames to a fresh parser the way the receiving side does (Add per frame, finish, decode(types...),
// dereference like serverSocket.onEvent) and compares what the handler would get with what was emitted.
//
// Output protocol (stdout):
//   BOUNDED-FAIL <class> :: <one-line description>      at most 3 per class
//   BOUNDED-COUNT <class> <number of failing cases>      informational
//   BOUNDED-CLASSES <sorted comma separated failing classes, or ->
//   BOUNDED-CASES <number of executed cases>

import (
	"bytes"
	"encoding/hex"
	stdlibjson "encoding/json"
	"fmt"
	"math"
	"os"
	"reflect"
	"regexp"
	"sort"
	"strconv"
	"strings"
	"testing"
	"unicode/utf8"

	"github.com/karagenc/socket.io-go/parser"
	"github.com/karagenc/socket.io-go/parser/json/serializer/stdjson"
)

// ---------------------------------------------------------------------------------------------------------------
// Concrete argument types. The receiver asks decode for exactly these types.

type gvbInner struct {
	Tag string `json:"tag"`
	Bin Binary `json:"bin"`
}

type gvbOuter struct {
	N   int    `json:"n"`
	S   string `json:"s"`
	F   float64
	OK  bool     `json:"ok"`
	P   *int     `json:"p"`
	Bin Binary   `json:"bin"`
	In  gvbInner `json:"in"`
}

type gvbPlain struct {
	N int    `json:"n"`
	S string `json:"s"`
	P *int
}

type gvbDeep struct {
	Name  string
	Items []gvbInner
	PIn   *gvbInner
	Bins  []Binary
	M     map[string]any
	Strs  map[string]string
}

type gvbAnyField struct {
	Name string
	V    any
}

// ---------------------------------------------------------------------------------------------------------------
// Value pool.

// gvbVal generates a fresh value on every call of mk (the encoder may modify what it is given).
// tier: 0 and 1 = member of the reduced pool used for 3-argument lists in the quick tier (0 marks the most
// interesting representative of a shape), 2 = in 3-argument lists only in the thorough tier. Lists of at most
// 2 arguments always range over the whole pool.
type gvbVal struct {
	shape string
	label string
	tier  int
	mk    func() any
}

var gvbStrings = []string{"", "x", "üñí✓", `quote"inside`, `back\slash`, `ends-with-backslash\`}

// gvbBin returns a non-nil Binary of n bytes (non UTF-8, contains quotes, backslashes, NUL for n = 300).
func gvbBin(n int) Binary {
	b := make(Binary, n)
	for i := range b {
		b[i] = byte(i*7 + 0xf9)
	}
	return b
}

func gvbIntPtr(i int) *int { return &i }

func gvbInnerVal(tag string, n int) gvbInner { return gvbInner{Tag: tag, Bin: gvbBin(n)} }

func gvbOuterFull() gvbOuter {
	return gvbOuter{N: -7, S: `quote"inside`, F: 1.5, OK: true, P: gvbIntPtr(1 << 40), Bin: gvbBin(1), In: gvbInnerVal(`ends-with-backslash\`, 300)}
}

func gvbOuterSparse() gvbOuter {
	return gvbOuter{N: 0, S: "", P: nil, Bin: gvbBin(0), In: gvbInnerVal("üñí✓", 0)}
}

func gvbHostileStringMap() map[string]string {
	return map[string]string{`q"k`: `back\slash`, "üñí✓": "", "": "x", `k\`: `ends-with-backslash\`}
}

func gvbDeepFull() gvbDeep {
	in := gvbInnerVal("p", 1)
	return gvbDeep{
		Name:  `back\slash`,
		Items: []gvbInner{gvbInnerVal("a", 1), gvbInnerVal(`quote"inside`, 300)},
		PIn:   &in,
		Bins:  []Binary{gvbBin(1), gvbBin(0)},
		M:     map[string]any{"b": gvbBin(1), "s": "x"},
		Strs:  gvbHostileStringMap(),
	}
}

func gvbPool(depth int) []*gvbVal {
	var pool []*gvbVal
	add := func(shape, label string, tier int, mk func() any) {
		pool = append(pool, &gvbVal{shape: shape, label: label, tier: tier, mk: mk})
	}

	// Depth 1: leaves.
	add("int", "0", 2, func() any { return 0 })
	add("int", "-7", 0, func() any { return -7 })
	add("int", "1<<40", 1, func() any { return 1 << 40 })
	add("float64", "1.5", 0, func() any { return 1.5 })
	add("bool", "true", 1, func() any { return true })
	add("bool", "false", 2, func() any { return false })
	strTier := []int{1, 2, 1, 0, 2, 0}
	for i := range gvbStrings {
		s := gvbStrings[i]
		add("string", strconv.Quote(s), strTier[i], func() any { return s })
	}
	add("nilptr", "(*int)(nil)", 0, func() any { return (*int)(nil) })
	add("ptr-int", "&-7", 1, func() any { return gvbIntPtr(-7) })
	add("ptr-int", "&1<<40", 2, func() any { return gvbIntPtr(1 << 40) })
	add("binary", "empty", 1, func() any { return gvbBin(0) })
	add("binary", "1 byte", 0, func() any { return gvbBin(1) })
	add("binary", "300 bytes", 0, func() any { return gvbBin(300) })
	add("binary-nil", "Binary(nil)", 1, func() any { return Binary(nil) })
	add("bytes-plain", "[]byte(\"plain\")", 1, func() any { return []byte("plain") })

	if depth < 2 {
		return pool
	}

	// Depth 2: containers of leaves (one declared struct type counts as one container).
	add("slice-int", "nil", 2, func() any { return []int(nil) })
	add("slice-int", "empty", 2, func() any { return []int{} })
	add("slice-int", "3", 1, func() any { return []int{0, -7, 1 << 40} })
	add("slice-string", "empty", 2, func() any { return []string{} })
	add("slice-string", "all", 1, func() any { return append([]string(nil), gvbStrings...) })
	add("slice-binary", "empty", 2, func() any { return []Binary{} })
	add("slice-binary", "1", 1, func() any { return []Binary{gvbBin(1)} })
	add("slice-binary", "3", 0, func() any { return []Binary{gvbBin(0), gvbBin(1), gvbBin(300)} })
	add("map-string-string", "nil", 2, func() any { return map[string]string(nil) })
	add("map-string-string", "1", 2, func() any { return map[string]string{"k": "v"} })
	add("map-string-string", "hostile", 0, func() any { return gvbHostileStringMap() })
	add("map-string-binary", "empty", 2, func() any { return map[string]Binary{} })
	add("map-string-binary", "1", 1, func() any { return map[string]Binary{"a": gvbBin(1)} })
	add("map-string-binary", "2", 2, func() any { return map[string]Binary{"a": gvbBin(1), "b": gvbBin(300)} })
	add("map-string-any", "1 binary", 1, func() any { return map[string]any{"b": gvbBin(1)} })
	add("map-string-any", "mixed", 0, func() any {
		return map[string]any{"b": gvbBin(300), "s": `quote"inside`, "f": 1.5, "t": true, "z": nil, `k\`: "x"}
	})
	add("map-string-any", "2 binaries", 1, func() any { return map[string]any{"b1": gvbBin(1), "b2": gvbBin(300)} })
	add("map-string-any", "no binary", 2, func() any { return map[string]any{"s": "x", "f": 1.5} })
	add("struct-plain", "value", 1, func() any { return gvbPlain{N: 1 << 40, S: `ends-with-backslash\`, P: gvbIntPtr(-7)} })
	add("ptr-plain", "pointer", 2, func() any { return &gvbPlain{N: -7, S: "üñí✓"} })
	add("struct-outer", "full", 0, func() any { return gvbOuterFull() })
	add("struct-outer", "sparse", 2, func() any { return gvbOuterSparse() })
	add("ptr-outer", "full", 0, func() any { o := gvbOuterFull(); return &o })
	add("ptr-outer", "sparse", 1, func() any { o := gvbOuterSparse(); return &o })
	add("slice-inner", "empty", 2, func() any { return []gvbInner{} })
	add("slice-inner", "1", 2, func() any { return []gvbInner{gvbInnerVal("a", 1)} })
	add("slice-inner", "2", 0, func() any { return []gvbInner{gvbInnerVal(`quote"inside`, 300), gvbInnerVal("", 0)} })
	add("slice-ptr-inner", "1", 2, func() any { a := gvbInnerVal("a", 1); return []*gvbInner{&a} })

	if depth < 3 {
		return pool
	}

	// Depth 3: containers of containers.
	add("slice-outer", "2", 1, func() any { return []gvbOuter{gvbOuterFull(), gvbOuterSparse()} })
	add("slice-ptr-inner", "3", 1, func() any {
		a, b := gvbInnerVal("a", 1), gvbInnerVal("b", 300)
		return []*gvbInner{&a, nil, &b}
	})
	add("slice-slice-binary", "3", 1, func() any { return [][]Binary{{gvbBin(1)}, {}, {gvbBin(300), gvbBin(0)}} })
	add("map-string-inner", "1", 1, func() any { return map[string]gvbInner{"a": gvbInnerVal("a", 1)} })
	add("map-string-ptr-inner", "2", 1, func() any {
		a := gvbInnerVal("a", 1)
		return map[string]*gvbInner{"a": &a, "n": nil}
	})
	add("map-string-slice-binary", "1", 2, func() any { return map[string][]Binary{"a": {gvbBin(1), gvbBin(300)}} })
	add("map-any-nested", "2 levels", 1, func() any {
		return map[string]any{"m": map[string]any{"b": gvbBin(1), "s": "x"}, "s": `back\slash`}
	})
	add("map-any-slice-any", "1", 2, func() any { return map[string]any{"l": []any{gvbBin(1), "x"}} })
	add("slice-any", "3", 1, func() any { return []any{gvbBin(1), "x", 1.5} })
	add("slice-map-any", "1", 2, func() any { return []map[string]any{{"b": gvbBin(1)}} })
	add("struct-deep", "full", 1, func() any { return gvbDeepFull() })
	add("struct-deep", "zero", 2, func() any { return gvbDeep{Name: "x"} })
	add("ptr-deep", "full", 1, func() any { d := gvbDeepFull(); return &d })
	add("struct-anyfield", "binary", 2, func() any { return gvbAnyField{Name: "n", V: gvbBin(1)} })
	add("struct-anyfield", "string", 2, func() any { return gvbAnyField{Name: "n", V: "x"} })

	return pool
}

// ---------------------------------------------------------------------------------------------------------------
// Reflection helpers: deep copy, Binary leaf count, canonical form, description.

var gvbBinaryType = reflect.TypeOf(Binary(nil))

func gvbCopy(v reflect.Value) reflect.Value {
	switch v.Kind() {
	case reflect.Interface:
		if v.IsNil() {
			return reflect.Zero(v.Type())
		}
		out := reflect.New(v.Type()).Elem()
		out.Set(gvbCopy(v.Elem()))
		return out
	case reflect.Ptr:
		if v.IsNil() {
			return reflect.Zero(v.Type())
		}
		out := reflect.New(v.Type().Elem())
		out.Elem().Set(gvbCopy(v.Elem()))
		return out
	case reflect.Slice:
		if v.IsNil() {
			return reflect.Zero(v.Type())
		}
		out := reflect.MakeSlice(v.Type(), v.Len(), v.Len())
		for i := 0; i < v.Len(); i++ {
			out.Index(i).Set(gvbCopy(v.Index(i)))
		}
		return out
	case reflect.Map:
		if v.IsNil() {
			return reflect.Zero(v.Type())
		}
		out := reflect.MakeMapWithSize(v.Type(), v.Len())
		iter := v.MapRange()
		for iter.Next() {
			out.SetMapIndex(iter.Key(), gvbCopy(iter.Value()))
		}
		return out
	case reflect.Struct:
		out := reflect.New(v.Type()).Elem()
		for i := 0; i < v.NumField(); i++ {
			out.Field(i).Set(gvbCopy(v.Field(i)))
		}
		return out
	default:
		return v
	}
}

func gvbCopyAny(x any) any {
	if x == nil {
		return nil
	}
	return gvbCopy(reflect.ValueOf(x)).Interface()
}

// gvbCountBin counts the values of type Binary reachable from v.
func gvbCountBin(v reflect.Value) int {
	if !v.IsValid() {
		return 0
	}
	switch v.Kind() {
	case reflect.Interface, reflect.Ptr:
		if v.IsNil() {
			return 0
		}
		return gvbCountBin(v.Elem())
	case reflect.Slice:
		if v.Type() == gvbBinaryType {
			return 1
		}
		n := 0
		for i := 0; i < v.Len(); i++ {
			n += gvbCountBin(v.Index(i))
		}
		return n
	case reflect.Map:
		n := 0
		iter := v.MapRange()
		for iter.Next() {
			n += gvbCountBin(iter.Value())
		}
		return n
	case reflect.Struct:
		n := 0
		for i := 0; i < v.NumField(); i++ {
			n += gvbCountBin(v.Field(i))
		}
		return n
	}
	return 0
}

type (
	gvbBytes  string // hex of a byte slice (Binary or []byte); nil and empty are the same
	gvbNilPtr struct{}
	gvbPtr    struct{ Elem any }
	gvbStruct struct {
		Type   string
		Fields map[string]any
	}
)

// gvbCanon maps a value to a canonical tree that reflect.DeepEqual compares: nil and empty slices/maps/Binary are
// the same, Binary and []byte are the same (a Binary under an `any` is delivered as []byte), interfaces are
// transparent, everything else keeps its exact Go type.
func gvbCanon(v reflect.Value) any {
	if !v.IsValid() {
		return nil
	}
	switch v.Kind() {
	case reflect.Interface:
		if v.IsNil() {
			return nil
		}
		return gvbCanon(v.Elem())
	case reflect.Ptr:
		if v.IsNil() {
			return gvbNilPtr{}
		}
		return gvbPtr{Elem: gvbCanon(v.Elem())}
	case reflect.Slice:
		if v.Type().Elem().Kind() == reflect.Uint8 {
			return gvbBytes(hex.EncodeToString(v.Bytes()))
		}
		out := make([]any, v.Len())
		for i := range out {
			out[i] = gvbCanon(v.Index(i))
		}
		return out
	case reflect.Map:
		out := make(map[string]any, v.Len())
		iter := v.MapRange()
		for iter.Next() {
			out[fmt.Sprint(iter.Key().Interface())] = gvbCanon(iter.Value())
		}
		return out
	case reflect.Struct:
		out := gvbStruct{Type: v.Type().String(), Fields: make(map[string]any, v.NumField())}
		for i := 0; i < v.NumField(); i++ {
			out.Fields[v.Type().Field(i).Name] = gvbCanon(v.Field(i))
		}
		return out
	default:
		if v.CanInterface() {
			return v.Interface()
		}
		return fmt.Sprint(v)
	}
}

func gvbTypeName(t reflect.Type) string {
	s := strings.ReplaceAll(t.String(), "jsonparser.", "")
	return strings.ReplaceAll(s, "interface {}", "any")
}

func gvbDescTo(sb *strings.Builder, v reflect.Value) {
	if !v.IsValid() {
		sb.WriteString("nil")
		return
	}
	switch v.Kind() {
	case reflect.Interface:
		if v.IsNil() {
			sb.WriteString("nil")
			return
		}
		gvbDescTo(sb, v.Elem())
	case reflect.Ptr:
		if v.IsNil() {
			sb.WriteString("(" + gvbTypeName(v.Type()) + ")(nil)")
			return
		}
		sb.WriteString("&")
		gvbDescTo(sb, v.Elem())
	case reflect.Slice:
		name := gvbTypeName(v.Type())
		if v.IsNil() {
			sb.WriteString(name + "(nil)")
			return
		}
		if v.Type().Elem().Kind() == reflect.Uint8 {
			b := v.Bytes()
			printable := len(b) <= 48
			for _, c := range b {
				if c < 0x20 || c > 0x7e {
					printable = false
				}
			}
			switch {
			case printable:
				sb.WriteString(name + "(" + strconv.Quote(string(b)) + ")")
			case len(b) <= 8:
				sb.WriteString(name + "(hex " + hex.EncodeToString(b) + ")")
			default:
				sb.WriteString(fmt.Sprintf("%s(len %d, hex %s..)", name, len(b), hex.EncodeToString(b[:8])))
			}
			return
		}
		sb.WriteString(name + "{")
		for i := 0; i < v.Len(); i++ {
			if i > 0 {
				sb.WriteString(", ")
			}
			gvbDescTo(sb, v.Index(i))
		}
		sb.WriteString("}")
	case reflect.Map:
		name := gvbTypeName(v.Type())
		if v.IsNil() {
			sb.WriteString(name + "(nil)")
			return
		}
		keys := v.MapKeys()
		sort.Slice(keys, func(i, j int) bool { return fmt.Sprint(keys[i]) < fmt.Sprint(keys[j]) })
		sb.WriteString(name + "{")
		for i, k := range keys {
			if i > 0 {
				sb.WriteString(", ")
			}
			gvbDescTo(sb, k)
			sb.WriteString(": ")
			gvbDescTo(sb, v.MapIndex(k))
		}
		sb.WriteString("}")
	case reflect.Struct:
		sb.WriteString(gvbTypeName(v.Type()) + "{")
		for i := 0; i < v.NumField(); i++ {
			if i > 0 {
				sb.WriteString(", ")
			}
			sb.WriteString(v.Type().Field(i).Name + ": ")
			gvbDescTo(sb, v.Field(i))
		}
		sb.WriteString("}")
	case reflect.String:
		sb.WriteString(strconv.Quote(v.String()))
	default:
		if v.CanInterface() {
			sb.WriteString(fmt.Sprintf("%s(%v)", gvbTypeName(v.Type()), v.Interface()))
		} else {
			sb.WriteString(fmt.Sprint(v))
		}
	}
}

func gvbDesc(x any) string {
	var sb strings.Builder
	gvbDescTo(&sb, reflect.ValueOf(x))
	return sb.String()
}

func gvbDescValue(v reflect.Value) string {
	var sb strings.Builder
	gvbDescTo(&sb, v)
	return sb.String()
}

func gvbTrunc(s string, n int) string {
	if len(s) <= n {
		return s
	}
	for n > 0 && !utf8.RuneStart(s[n]) {
		n--
	}
	return s[:n] + fmt.Sprintf("...(%d more bytes)", len(s)-n)
}

func gvbOneLine(s string) string {
	s = strings.ReplaceAll(s, "\n", `\n`)
	s = strings.ReplaceAll(s, "\r", `\r`)
	return strings.ReplaceAll(s, " :: ", " : : ")
}

func gvbDescFrames(frames [][]byte) string {
	if frames == nil {
		return "none"
	}
	var parts []string
	for i, f := range frames {
		if i == 0 {
			parts = append(parts, gvbTrunc(strconv.Quote(string(f)), 360))
			continue
		}
		if i > 4 {
			parts = append(parts, fmt.Sprintf("...(%d more)", len(frames)-i))
			break
		}
		h := f
		if len(h) > 32 {
			h = h[:32]
		}
		printable := len(f) > 0
		for _, c := range h {
			if c < 0x20 || c > 0x7e {
				printable = false
			}
		}
		if printable {
			parts = append(parts, fmt.Sprintf("bin[%d](%s)", len(f), strconv.Quote(string(h))))
		} else {
			if len(h) > 8 {
				h = h[:8]
			}
			parts = append(parts, fmt.Sprintf("bin[%d](hex %s)", len(f), hex.EncodeToString(h)))
		}
	}
	return "[" + strings.Join(parts, " ") + "]"
}

// ---------------------------------------------------------------------------------------------------------------
// One case.

type gvbCase struct {
	typ   parser.PacketType // PacketTypeEvent or PacketTypeAck
	nsp   string
	id    *uint64
	event string // only for events
	vals  []*gvbVal
}

func (c *gvbCase) header() *parser.PacketHeader {
	h := &parser.PacketHeader{Type: c.typ, Namespace: c.nsp}
	if c.id != nil {
		id := *c.id
		h.ID = &id
	}
	return h
}

func gvbIDString(id *uint64) string {
	if id == nil {
		return "nil"
	}
	return strconv.FormatUint(*id, 10)
}

func gvbTypeString(t parser.PacketType) string {
	switch t {
	case parser.PacketTypeEvent:
		return "EVENT"
	case parser.PacketTypeAck:
		return "ACK"
	case parser.PacketTypeBinaryEvent:
		return "BINARY_EVENT"
	case parser.PacketTypeBinaryAck:
		return "BINARY_ACK"
	}
	return "type(" + strconv.Itoa(int(t)) + ")"
}

func gvbEventKind(name string) string {
	switch {
	case strings.HasSuffix(name, `\`):
		return "trailing-backslash"
	case strings.Contains(name, `"`):
		return "quote"
	case strings.Contains(name, `\`):
		return "backslash"
	}
	return "other"
}

type gvbFail struct {
	kind string // class without the <shape>/<kind> suffix
	arg  int    // index of the offending argument, or -1
	desc string
}

type gvbResult struct {
	phase  string
	snap   []any
	frames [][]byte
	fails  []gvbFail
}

func (r *gvbResult) fail(kind string, arg int, desc string) {
	r.fails = append(r.fails, gvbFail{kind: kind, arg: arg, desc: desc})
}

func (r *gvbResult) has(kind string) bool {
	for _, f := range r.fails {
		if f.kind == kind {
			return true
		}
	}
	return false
}

func gvbNewParser() parser.Parser { return NewCreator(0, stdjson.New())() }

func gvbCopyFrames(frames [][]byte) [][]byte {
	out := make([][]byte, len(frames))
	for i, f := range frames {
		out[i] = append([]byte{}, f...)
	}
	return out
}

func gvbFramesEqual(a, b [][]byte) bool {
	if len(a) != len(b) {
		return false
	}
	for i := range a {
		if !bytes.Equal(a[i], b[i]) {
			return false
		}
	}
	return true
}

var gvbPlaceholderRe = regexp.MustCompile(`\{"_placeholder":true,"num":(\d+)\}`)

// gvbResolve substitutes every placeholder of the first frame by the content of the attachment it names: two
// encodings that differ only in the numbering of the attachments (map iteration order) resolve to the same string.
func gvbResolve(frames [][]byte) string {
	if len(frames) == 0 {
		return "0|"
	}
	s := gvbPlaceholderRe.ReplaceAllStringFunc(string(frames[0]), func(m string) string {
		sub := gvbPlaceholderRe.FindStringSubmatch(m)
		n, err := strconv.Atoi(sub[1])
		if err != nil || n+1 >= len(frames) {
			return m
		}
		return `"<attachment ` + hex.EncodeToString(frames[n+1]) + `>"`
	})
	return strconv.Itoa(len(frames)) + "|" + s
}

func gvbExpectedType(typ parser.PacketType, nbin int) parser.PacketType {
	if nbin == 0 {
		return typ
	}
	if typ == parser.PacketTypeEvent {
		return parser.PacketTypeBinaryEvent
	}
	return parser.PacketTypeBinaryAck
}

func gvbWirePrefix(c *gvbCase, nbin int) string {
	s := string(rune('0' + int(gvbExpectedType(c.typ, nbin))))
	if nbin > 0 {
		s += strconv.Itoa(nbin) + "-"
	}
	if c.nsp != "/" {
		s += c.nsp + ","
	}
	if c.id != nil {
		s += strconv.FormatUint(*c.id, 10)
	}
	return s
}

// gvbRun executes one case and returns its failures; a panic of the library is recovered and reported.
func gvbRun(c *gvbCase) (res *gvbResult) {
	res = &gvbResult{phase: "build"}
	defer func() {
		if r := recover(); r != nil {
			res.fail("panic", -1, fmt.Sprintf("panic during %s: %v", res.phase, r))
		}
	}()
	gvbRunInner(c, res)
	return res
}

func gvbRunInner(c *gvbCase, res *gvbResult) {
	n := len(c.vals)
	args := make([]any, n)
	snap := make([]any, n)
	types := make([]reflect.Type, n)
	nbin := 0
	for i, gv := range c.vals {
		args[i] = gv.mk()
		snap[i] = gvbCopyAny(args[i]) // (a) snapshot before encoding
		types[i] = reflect.TypeOf(args[i])
		nbin += gvbCountBin(reflect.ValueOf(snap[i]))
	}
	res.snap = snap
	isEvent := c.typ == parser.PacketTypeEvent

	// As serverSocket.emit: one extra slot for the event name, one spare.
	v := make([]any, 0, n+2)
	if isEvent {
		v = append(v, c.event)
	}
	v = append(v, args...)

	res.phase = "Encode"
	frames, err := gvbNewParser().Encode(c.header(), &v)

	// (a) input intact
	for i := range args {
		if !reflect.DeepEqual(args[i], snap[i]) {
			res.fail("input.mutated", i, fmt.Sprintf("Encode changed the caller's argument %d, it is now %s", i, gvbTrunc(gvbDesc(args[i]), 400)))
		}
	}
	if err != nil {
		res.fail("encode.error", -1, "Encode returned error: "+err.Error())
		return
	}
	if len(frames) == 0 {
		res.fail("encode.error", -1, "Encode returned no frames and no error")
		return
	}
	fr1 := gvbCopyFrames(frames)
	res.frames = fr1

	// (f) literal v5 header of the first frame
	res.phase = "wire check"
	prefix := gvbWirePrefix(c, nbin)
	first := string(fr1[0])
	if !strings.HasPrefix(first, prefix) {
		res.fail("wire.header", -1, fmt.Sprintf("first frame does not start with %q", prefix))
	} else if rest := first[len(prefix):]; len(rest) == 0 || rest[0] != '[' || !stdlibjson.Valid([]byte(rest)) {
		res.fail("wire.header", -1, fmt.Sprintf("after the header %q the first frame does not continue with a valid JSON array", prefix))
	}

	// (b) encode the same value again: fresh parser, fresh header
	func() {
		res.phase = "second Encode"
		defer func() {
			if r := recover(); r != nil {
				res.fail("panic", -1, fmt.Sprintf("panic during %s: %v", res.phase, r))
			}
		}()
		frames2, err2 := gvbNewParser().Encode(c.header(), &v)
		switch {
		case err2 != nil:
			res.fail("reencode.differs", -1, "second Encode of the same value returned error: "+err2.Error())
		case !gvbFramesEqual(frames2, fr1) && gvbResolve(frames2) != gvbResolve(fr1):
			res.fail("reencode.differs", -1, "second Encode of the same value gave frames "+gvbDescFrames(frames2))
		case !gvbFramesEqual(frames, fr1):
			res.fail("reencode.differs", -1, "the second Encode changed the frames returned by the first one to "+gvbDescFrames(frames))
		}
	}()

	// (c) feed the frames to a fresh parser
	res.phase = "Add"
	dec := gvbNewParser()
	finishCalls, finishAt := 0, -1
	var addErr error
	for i, f := range fr1 {
		cur := i
		finish := func(header *parser.PacketHeader, eventName string, decode parser.Decode) {
			finishCalls++
			if finishCalls > 1 {
				return
			}
			finishAt = cur
			res.phase = "finish"

			// (d) header and event name
			if header == nil {
				res.fail("header.type", -1, "finish got a nil header")
			} else {
				if want := gvbExpectedType(c.typ, nbin); header.Type != want {
					res.fail("header.type", -1, fmt.Sprintf("decoded type %s, want %s (%d Binary leaves)", gvbTypeString(header.Type), gvbTypeString(want), nbin))
				}
				if header.Namespace != c.nsp {
					res.fail("header.namespace", -1, fmt.Sprintf("decoded namespace %q", header.Namespace))
				}
				if (header.ID == nil) != (c.id == nil) || (c.id != nil && *header.ID != *c.id) {
					res.fail("header.id", -1, "decoded ack id "+gvbIDString(header.ID))
				}
				if header.Attachments != nbin {
					res.fail("header.attachments", -1, fmt.Sprintf("decoded attachments %d, want %d", header.Attachments, nbin))
				}
			}
			wantName := ""
			if isEvent {
				wantName = c.event
			}
			if eventName != wantName {
				res.fail("eventname", -1, fmt.Sprintf("decoded event name %q", eventName))
			}

			// (e) arguments, dereferenced as serverSocket.onEvent does
			res.phase = "decode"
			values, err := decode(types...)
			if err != nil {
				res.fail("decode.error", -1, "decode returned error: "+err.Error())
				return
			}
			if len(values) != len(types) {
				res.fail("decode.error", -1, fmt.Sprintf("decode returned %d values for %d types", len(values), len(types)))
				return
			}
			res.phase = "compare"
			for i, val := range values {
				if types[i].Kind() != reflect.Ptr && val.Kind() == reflect.Ptr {
					val = val.Elem()
				}
				if !val.IsValid() {
					res.fail("args.differ", i, fmt.Sprintf("argument %d decoded as an invalid reflect.Value", i))
					continue
				}
				if val.Type() != types[i] {
					res.fail("args.differ", i, fmt.Sprintf("argument %d decoded with type %s, want %s", i, gvbTypeName(val.Type()), gvbTypeName(types[i])))
					continue
				}
				if !reflect.DeepEqual(gvbCanon(val), gvbCanon(reflect.ValueOf(snap[i]))) {
					res.fail("args.differ", i, fmt.Sprintf("argument %d decoded as %s", i, gvbTrunc(gvbDescValue(val), 400)))
				}
			}
		}
		res.phase = "Add"
		if addErr = dec.Add(append([]byte{}, f...), finish); addErr != nil {
			res.fail("decode.error", -1, fmt.Sprintf("Add(frame %d of %d) returned error: %v", i+1, len(fr1), addErr))
			break
		}
	}
	// Exactly one finish, during the Add of the last frame. (After an Add error no finish is expected any more,
	// but one that already happened came too early.)
	if finishCalls > 1 || (finishCalls == 1 && finishAt != len(fr1)-1) || (finishCalls == 0 && addErr == nil) {
		res.fail("frames.finish", -1, fmt.Sprintf("finish called %d times, first during Add of frame %d of %d", finishCalls, finishAt+1, len(fr1)))
	}
}

// ---------------------------------------------------------------------------------------------------------------
// Harness: classification, reporting, enumeration.

type gvbHarness struct {
	cases    int
	classes  map[string]int
	controls map[string]map[string]bool // single-argument control runs: key -> failing kinds
}

func (h *gvbHarness) kindsOf(c *gvbCase) map[string]bool {
	out := map[string]bool{}
	for _, f := range gvbRun(c).fails {
		out[f.kind] = true
	}
	return out
}

// singleKinds runs (once) the control case "event e, namespace /, no ack id, this one argument".
func (h *gvbHarness) singleKinds(typ parser.PacketType, gv *gvbVal) map[string]bool {
	key := fmt.Sprintf("%d|%p", typ, gv)
	if k, ok := h.controls[key]; ok {
		return k
	}
	k := h.kindsOf(&gvbCase{typ: typ, nsp: "/", event: "e", vals: []*gvbVal{gv}})
	h.controls[key] = k
	return k
}

// attribute names the shape (or event name kind, or "header") responsible for a failure that concerns the whole
// case: control runs with a benign event name, a benign header, and each argument alone tell which part of the
// case the failure follows; "combo" if it follows none of the arguments alone.
func (h *gvbHarness) attribute(c *gvbCase, kind string) string {
	if kind == "decode.error" || kind == "panic" {
		ctl := *c
		if c.typ == parser.PacketTypeEvent && gvbEventKind(c.event) != "other" {
			ctl.event = "e"
			if !h.kindsOf(&ctl)[kind] {
				return gvbEventKind(c.event)
			}
		}
		if c.nsp != "/" || c.id != nil {
			ctl.nsp, ctl.id = "/", nil
			if !h.kindsOf(&ctl)[kind] {
				return "header"
			}
		}
	}
	switch len(c.vals) {
	case 0:
		return "noargs"
	case 1:
		return c.vals[0].shape
	}
	for _, gv := range c.vals {
		if h.singleKinds(c.typ, gv)[kind] {
			return gv.shape
		}
	}
	return "combo"
}

func (h *gvbHarness) classOf(c *gvbCase, f gvbFail) string {
	switch f.kind {
	case "input.mutated", "args.differ":
		return f.kind + "." + c.vals[f.arg].shape
	case "eventname":
		return "eventname." + gvbEventKind(c.event)
	case "panic", "decode.error", "encode.error", "reencode.differs":
		return f.kind + "." + h.attribute(c, f.kind)
	}
	return f.kind
}

func (h *gvbHarness) describe(c *gvbCase, res *gvbResult) string {
	var sb strings.Builder
	sb.WriteString("type=" + gvbTypeString(c.typ) + " nsp=" + strconv.Quote(c.nsp) + " id=" + gvbIDString(c.id))
	if c.typ == parser.PacketTypeEvent {
		sb.WriteString(" event=" + strconv.Quote(c.event))
	}
	sb.WriteString(" args=[")
	for i, x := range res.snap {
		if i > 0 {
			sb.WriteString("; ")
		}
		sb.WriteString(gvbTrunc(gvbDesc(x), 400))
	}
	sb.WriteString("] frames=" + gvbDescFrames(res.frames))
	return sb.String()
}

func (h *gvbHarness) exec(c *gvbCase) {
	h.cases++
	res := gvbRun(c)
	if len(res.fails) == 0 {
		return
	}
	seen := map[string]bool{}
	for _, f := range res.fails {
		class := h.classOf(c, f)
		if seen[class] {
			continue
		}
		seen[class] = true
		h.classes[class]++
		if h.classes[class] <= 3 {
			fmt.Println("BOUNDED-FAIL " + class + " :: " + gvbOneLine(h.describe(c, res)+" | "+f.desc))
		}
	}
}

func (h *gvbHarness) summary(t *testing.T) {
	names := make([]string, 0, len(h.classes))
	for c := range h.classes {
		names = append(names, c)
	}
	sort.Strings(names)
	for _, c := range names {
		fmt.Printf("BOUNDED-COUNT %s %d\n", c, h.classes[c])
	}
	if len(names) == 0 {
		fmt.Println("BOUNDED-CLASSES -")
	} else {
		fmt.Println("BOUNDED-CLASSES " + strings.Join(names, ","))
	}
	fmt.Printf("BOUNDED-CASES %d\n", h.cases)
	if len(names) > 0 {
		t.Fail()
	}
}

func gvbU64(x uint64) *uint64 { return &x }

func TestGovcBounded(t *testing.T) {
	depth := 2
	thorough := os.Getenv("VERIF_TIER") == "thorough"
	if thorough {
		depth = 3
	}
	maxTier := 1 // values allowed in 3-argument lists
	if thorough {
		maxTier = 2
	}

	h := &gvbHarness{classes: map[string]int{}, controls: map[string]map[string]bool{}}
	defer h.summary(t)

	pool := gvbPool(depth)
	var core []*gvbVal
	for _, gv := range pool {
		if gv.tier <= maxTier {
			core = append(core, gv)
		}
	}
	find := func(shape, label string) *gvbVal {
		for _, gv := range pool {
			if gv.shape == shape && gv.label == label {
				return gv
			}
		}
		panic("bounded harness: no value " + shape + "/" + label)
	}

	// Part 1: every argument list (0, 1, 2 arguments over the whole pool, 3 arguments over the reduced pool in the
	// quick tier and over the whole pool in the thorough tier) with one EVENT and one ACK header (two each in the
	// thorough tier).
	bases := []gvbCase{
		{typ: parser.PacketTypeEvent, nsp: "/", id: nil, event: "e"},
		{typ: parser.PacketTypeAck, nsp: "/chat", id: gvbU64(1)},
	}
	if thorough {
		bases = append(bases,
			gvbCase{typ: parser.PacketTypeEvent, nsp: "/üñí-!$", id: gvbU64(math.MaxUint64), event: `q"uote`},
			gvbCase{typ: parser.PacketTypeAck, nsp: "/", id: gvbU64(0)},
		)
	}
	for _, base := range bases {
		run := func(vals ...*gvbVal) {
			c := base
			c.vals = vals
			h.exec(&c)
		}
		run()
		for _, a := range pool {
			run(a)
		}
		for _, a := range pool {
			for _, b := range pool {
				run(a, b)
			}
		}
		for _, a := range core {
			for _, b := range core {
				for _, d := range core {
					run(a, b, d)
				}
			}
		}
	}

	// Part 2: hostile event names x all headers x a few fixed argument lists.
	events := []string{"e", "", "with space", `q"uote`, `back\slash`, `trailing\`, `\`, "üñí", "[", "0", "/nsp,", "1-2"}
	namespaces := []string{"/", "/chat", "/üñí-!$"}
	ids := []*uint64{nil, gvbU64(0), gvbU64(1), gvbU64(1 << 63), gvbU64(math.MaxUint64)}
	fixed := [][]*gvbVal{
		{},
		{find("int", "-7")},
		{find("string", strconv.Quote(`ends-with-backslash\`))},
		{find("binary", "1 byte")},
		{find("struct-outer", "full")},
		{find("map-string-any", "mixed"), find("string", strconv.Quote(`quote"inside`)), find("binary", "300 bytes")},
	}
	for _, nsp := range namespaces {
		for _, id := range ids {
			for _, vals := range fixed {
				for _, ev := range events {
					h.exec(&gvbCase{typ: parser.PacketTypeEvent, nsp: nsp, id: id, event: ev, vals: vals})
				}
				h.exec(&gvbCase{typ: parser.PacketTypeAck, nsp: nsp, id: id, vals: vals})
			}
		}
	}
}

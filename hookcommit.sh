#!/bin/sh
# commits only the contract files (hook, build tag verif) in /repo
/verif/sync_contracts.sh
cd /repo && git add -- $(git ls-files -mo --exclude-standard | grep 'zz_contracts_verif.go$') 2>/dev/null && git commit -qm "verif hook: ${1:-contracts}" && git log --oneline | head -1

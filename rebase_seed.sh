#!/bin/sh
# rebase_seed.sh <incoming patch> <out patch>: re-creates a seeded patch against /repo's current working tree
# (patch with fuzz in a scratch copy, then diff). Fails when a hunk cannot be placed.
in="$1"; out="$2"
d="$(mktemp -d /tmp/govc-rebase-XXXXXX)"
/verif/mkmut.sh "$d/a" >/dev/null
cp -r "$d/a" "$d/b"
(cd "$d/b" && patch -s -p1 -F3 < "$in") || { echo "REBASE FAILED $in"; rm -rf "$d"; exit 1; }
find "$d/b" -name '*.orig' -delete
(cd "$d" && diff -ruN a b | sed 's|^--- a/|--- a/|; s|^+++ b/|+++ b/|' | grep -v '^diff -ruN' ) > "$out"
rm -rf "$d"
[ -s "$out" ] && echo "rebased -> $out" || { echo "EMPTY $out"; exit 1; }

#!/usr/bin/env python3
# seeds_finalize.py: turns /verif/seeded/_incoming/<id>/<k> (patches against the pristine commit, produced by
# sub-agents that saw only the property text) into /verif/seeded/<id>-<k>/ {patch.diff (against the CURRENT tree),
# demo test, notes.md, meta.json}, runs the property's quick check against a scratch copy with the patch, and
# writes /verif/seeded/RESULTS.json + RESULTS.md.
import json, os, re, shutil, subprocess, sys
V = '/verif'
props = {}
for l in open(f'{V}/properties.jsonl'):
    d = json.loads(l); props[d['id']] = d
only = sys.argv[1:]
results = []
def run(cmd, **kw):
    return subprocess.run(cmd, shell=True, capture_output=True, text=True, **kw)
for pid in sorted(props):
    inc = f'{V}/seeded/_incoming/{pid}'
    if not os.path.isdir(inc) or not os.path.exists(f'{V}/checks/{pid}.json'):
        continue
    for k in sorted(os.listdir(inc)):
        if only and f'{pid}-{k}' not in only and pid not in only:
            continue
        src = f'{inc}/{k}'
        if not os.path.exists(f'{src}/patch.diff'):
            continue
        out = f'{V}/seeded/{pid}-{k}'
        os.makedirs(out, exist_ok=True)
        for f in ('notes.md', 'zz_demo_test.go'):
            if os.path.exists(f'{src}/{f}'):
                shutil.copy(f'{src}/{f}', f'{out}/{f}')
        shutil.copy(f'{src}/patch.diff', f'{out}/patch.pristine.diff')
        notes = open(f'{src}/notes.md').read() if os.path.exists(f'{src}/notes.md') else ''
        title = (notes.strip().splitlines() or [''])[0].lstrip('# ').strip()
        m = re.search(r'##\s*What it needs[^\n]*\n(.*?)(\n## |\Z)', notes, re.S)
        needs = re.sub(r'\s+', ' ', m.group(1)).strip()[:700] if m else ''
        files = sorted(set(re.findall(r'^\+\+\+ b/(\S+)', open(f'{src}/patch.diff').read(), re.M)))
        status, applies = None, 'current tree (rebased mechanically with patch -F3)'
        r = run(f'{V}/rebase_seed.sh {src}/patch.diff {out}/patch.diff')
        if r.returncode != 0:
            hand = f'{V}/seeded/rebased/{pid}-{k}.diff'
            if os.path.exists(hand):
                shutil.copy(hand, f'{out}/patch.diff')
                applies = 'current tree (the same change re-made by hand: the surrounding code was rewritten by a fix: commit)'
            else:
                if os.path.exists(f'{out}/patch.diff'):
                    os.remove(f'{out}/patch.diff')
                status = 'superseded'
                applies = 'pristine commit a4acd23 only: the code it changes was rewritten by a fix: commit, so the change cannot be made on the current tree'
        detected_by, summary = [], ''
        cmd = f'{V}/selftest.sh {pid} {out}/patch.diff expect-violation'
        if status is None:
            r = run(cmd)
            o = r.stdout + r.stderr
            detected_by = sorted(set(re.findall(r'obligation="([^"]+)"', o)))
            summary = ' | '.join(l for l in o.splitlines() if 'obligations,' in l)
            status = 'detected' if 'detected' in o.splitlines()[-1] else 'missed'
        meta = {
            'property': pid, 'change': title, 'files': files,
            'origin': 'sub-agent that was given only the property text and a scratch worktree of the pristine commit (prompt: seeded/AGENT_PROMPT.tmpl); it confirmed: suite passes with the patch, its demo fails with the patch and passes without',
            'needs_to_manifest': needs, 'patch_applies_to': applies,
            'demonstration': 'zz_demo_test.go (in-package test; see notes.md for the package directory and command)',
            'what_i_ran': cmd if status != 'superseded' else 'patch -F3 against the current tree (failed)',
            'result': status, 'detected_by_obligations': detected_by, 'check_summary': summary,
        }
        json.dump(meta, open(f'{out}/meta.json', 'w'), indent=1)
        results.append(meta)
        print(pid, k, status, detected_by[:3], flush=True)
# own mutants
own = []
for f in sorted(os.listdir(f'{V}/seeded/own')):
    if not f.endswith('.diff'):
        continue
    pid = f.split('-')[0]
    if only and pid not in only:
        continue
    cmd = f'{V}/selftest.sh {pid} {V}/seeded/own/{f} expect-violation'
    r = run(cmd)
    o = r.stdout + r.stderr
    st = 'detected' if o.strip() and 'detected' in o.splitlines()[-1] else 'missed'
    own.append({'property': pid, 'patch': f'seeded/own/{f}', 'origin': 'written by hand while building the check (sanity mutation)', 'what_i_ran': cmd, 'result': st, 'detected_by_obligations': sorted(set(re.findall(r'obligation="([^"]+)"', o)))})
    print(pid, f, st, flush=True)
prev = {}
if only and os.path.exists(f'{V}/seeded/RESULTS.json'):
    prev = json.load(open(f'{V}/seeded/RESULTS.json'))
    keep = [r for r in prev.get('seeded', []) if not any(r['property'] == x['property'] and r['change'] == x['change'] for x in results)]
    results = sorted(keep + results, key=lambda r: (r['property'], r['change']))
    own = [r for r in prev.get('own', []) if not any(r['patch'] == x['patch'] for x in own)] + own
json.dump({'seeded': results, 'own': own}, open(f'{V}/seeded/RESULTS.json', 'w'), indent=1)
with open(f'{V}/seeded/RESULTS.md', 'w') as f:
    f.write('| property | change | files | result | detected by |\n|---|---|---|---|---|\n')
    for r in results:
        f.write(f"| {r['property']} | {r['change'][:110]} | {', '.join(r['files'])} | {r['result']} | {', '.join(r['detected_by_obligations'][:3])[:160]} |\n")
    f.write('\nOwn sanity mutations:\n\n| property | patch | result | detected by |\n|---|---|---|---|\n')
    for r in own:
        f.write(f"| {r['property']} | {r['patch']} | {r['result']} | {', '.join(r['detected_by_obligations'][:3])[:160]} |\n")

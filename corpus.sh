#!/bin/sh
# corpus.sh [jobs]: the must-fail / must-stay-silent corpus, all of it:
#   seeded/<id>-<k>/patch.diff, seeded/r*-<id>-<k>/patch.diff, seeded/own/<id>-*.diff  -> the property's check must report a violation
#   seeded/harmless/<id>-*.diff                                                        -> the check must stay silent
# Prints one line per patch and a summary; exit 1 if any expectation is not met.
jobs="${1:-4}"
cd /verif || exit 2
list="$(mktemp)"
for d in seeded/C??-? seeded/r?-C??-?; do
  [ -f "$d/patch.diff" ] || continue
  # a seed that no longer breaks the property on the repaired tree (see its meta.json) is not expected to alarm
  grep -q '"result": "superseded"' "$d/meta.json" 2>/dev/null && continue
  id="$(basename "$d" | sed 's/^r[0-9]-//' | cut -d- -f1)"
  echo "$id /verif/$d/patch.diff expect-violation" >> "$list"
done
for f in seeded/own/*.diff; do
  [ -f "$f" ] || continue
  echo "$(basename "$f" | cut -d- -f1) /verif/$f expect-violation" >> "$list"
done
for f in seeded/harmless/*.diff; do
  [ -f "$f" ] || continue
  echo "$(basename "$f" | cut -d- -f1) /verif/$f expect-silence" >> "$list"
done
out="$(mktemp)"
xargs -P "$jobs" -L 1 sh -c '/verif/selftest.sh "$0" "$1" "$2" 2>&1 | tail -1 | sed "s|^|$1: |"' < "$list" | tee "$out"
n="$(wc -l < "$list")"; bad="$(grep -c "MISSED\|FALSE ALARM\|does not apply" "$out")"
echo "corpus: $n patches, $bad not as expected"
rm -f "$list" "$out"
[ "$bad" -eq 0 ]

//go:build verif

// Contracts of this package for the govc verification-condition generator (/verif).
// Comment-only file: it adds no declarations and is not even parsed without the `verif` tag.

package sio

// ---------------------------------------------------------------------------------------------
// C10: a decoding error is reported, never swallowed: the server closes the connection, the client manager
// closes with ReasonParseError - on its own goroutine (it would dead-lock on parserMu otherwise).
//@ func (*serverConn).onEIOPacket
//@   opt safety off
//@   ghost sawerr bool = false
//@   ghost fatal int = 0
//@   callsite Parser.Add
//@     updateafter sawerr = sawerr || result != nil
//@   callsite (*serverConn).onFatalError
//@     update fatal = fatal + 1
//@   ensures sawerr ==> fatal == 1 [C10.route.server]
//@   ensures !sawerr ==> fatal == 0 [C10.route.server.only]
//@   loop 0 invariant !sawerr && fatal == 0

//@ func (*Manager).onEIOPacket
//@   opt safety off
//@   ghost sawerr bool = false
//@   ghost closes int = 0
//@   callsite Parser.Add
//@     updateafter sawerr = sawerr || result != nil
//@   callsite (*Manager).onClose go
//@     requires arg0 == ReasonParseError [C10.route.client.reason]
//@     update closes = closes + 1
//@   callsite (*Manager).onClose sync
//@     requires false [C10.route.client.async]
//@   ensures sawerr ==> closes == 1 [C10.route.client]
//@   ensures !sawerr ==> closes == 0 [C10.route.client.only]
//@   loop 0 invariant !sawerr && closes == 0

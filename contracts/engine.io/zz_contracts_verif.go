//go:build verif

// Contracts of this package for the govc verification-condition generator (/verif).
// Comment-only file: it adds no declarations and is not even parsed without the `verif` tag.

package eio

// ---------------------------------------------------------------------------------------------
// C13: the long-polling batcher. Every hand-off to the transport is the next consecutive segment of the
// argument (nothing dropped, duplicated or reordered); a polling batch of several packets stays within maxPayload.
//@ func (*clientSocket).writeWritablePackets
//@   requires s.transport != nil && s.debug != nil
//@   requires forall k int :: 0 <= k && k < len(packets) ==> packets[k] != nil
//@   ghost flushed int = 0
//@   callsite ClientTransport.Send
//@     requires arr(arg0) == arr(old(packets)) && off(arg0) == off(old(packets)) + flushed && len(arg0) >= 1 && flushed + len(arg0) <= len(old(packets)) [C13.batch.frame]
//@     requires s.maxPayload > 0 && ctname(s.transport) == "polling" && len(arg0) > 1 ==> psum(old(packets), flushed + len(arg0)) - psum(old(packets), flushed) + len(arg0) - 1 <= s.maxPayload [C13.batch.limit]
//@     update flushed = flushed + len(arg0)
//@   ensures flushed == len(old(packets)) [C13.batch.total]
//@   loop 0 invariant 0 <= i && i <= len(packets) && 0 <= flushed && flushed <= len(old(packets))
//@   loop 0 invariant arr(packets) == arr(old(packets)) && off(packets) == off(old(packets)) + flushed && len(packets) == len(old(packets)) - flushed [C13.batch.inv.segment]
//@   loop 0 invariant payloadSize == psum(old(packets), flushed + i) - psum(old(packets), flushed) + i [C13.batch.inv.size]
//@   loop 0 invariant i >= 2 ==> payloadSize - 1 <= s.maxPayload [C13.batch.inv.fits]
//@   loop 0 invariant s.maxPayload > 0 && ctname(s.transport) == "polling"

// C13 / C14: configuration defaults and what the handshake announces.
//@ func newServer
//@   requires config != nil
//@   ensures result != nil
//@   ensures config.DisableMaxBufferSize ==> result.maxBufferSize == 0 [C13.cfg.disable]
//@   ensures !config.DisableMaxBufferSize && config.MaxBufferSize == 0 ==> result.maxBufferSize == 1000000 [C13.cfg.default]
//@   ensures !config.DisableMaxBufferSize && config.MaxBufferSize != 0 ==> result.maxBufferSize == config.MaxBufferSize [C13.cfg.keep]
//@   ensures result.pingInterval == (config.PingInterval == 0 ? 25000000000 : config.PingInterval) [C14.cfg.interval]
//@   ensures result.pingTimeout == (config.PingTimeout == 0 ? 20000000000 : config.PingTimeout) [C14.cfg.timeout]

//@ func (*Server).newHandshakePacket
//@   requires s.pingInterval >= 0 && s.pingTimeout >= 0
//@   callsite Marshal
//@     requires unbox(arg0, *parser.HandshakeResponse).MaxPayload == s.maxBufferSize [C13.announce]
//@     requires unbox(arg0, *parser.HandshakeResponse).PingInterval == s.pingInterval / 1000000 && unbox(arg0, *parser.HandshakeResponse).PingTimeout == s.pingTimeout / 1000000 [C14.announce]

//go:build verif

// Contracts of this package for the govc verification-condition generator (/verif).
// Comment-only file: it adds no declarations and is not even parsed without the `verif` tag.

package websocket

// C13: nhooyr.io/websocket gives every new Conn a read limit of 32768 bytes; SetReadLimit(n) replaces it and a
// negative n disables it. The ghost `rl` follows the limit of the connection this handshake creates.
// Server: the limit in force must be the configured MaxBufferSize, and "disabled" (0) must mean unlimited.
//@ func (*ServerTransport).Handshake
//@   opt safety off
//@   requires r != nil && w != nil
//@   ghost rl int = 32768
//@   callsite SetReadLimit
//@     update rl = arg0
//@   ensures err == nil ==> rl < 0 || (old(t.readLimit) > 0 && rl >= old(t.readLimit)) [C13.ws.server]

// Client: every message the server may send (up to the maxPayload it announced) must be readable.
//@ func (*ClientTransport).Handshake
//@   opt safety off
//@   ghost rl int = 32768
//@   callsite SetReadLimit
//@     update rl = arg0
//@   ensures err == nil ==> rl < 0 || (hr != nil && hr.MaxPayload > 0 && rl >= hr.MaxPayload) [C13.ws.client]

//go:build verif

// Contracts of this package for the govc verification-condition generator (/verif).
// Comment-only file: it adds no declarations and is not even parsed without the `verif` tag.

package polling

// C13: a POST body is read only when something bounds it by the configured limit: the declared Content-Length
// (net/http never yields more than a declared length) or an http.MaxBytesReader; a body within the limit is
// never answered 413.
//@ func (*ServerTransport).handleDataRequest
//@   opt safety off
//@   requires r != nil && r.Body != nil && w != nil && r.URL != nil && t.callbacks != nil
//@   callsite DecodePayloads
//@     requires jsonp == "" ==> t.maxHTTPBufferSize <= 0 || (old(r.ContentLength) >= 0 && old(r.ContentLength) <= t.maxHTTPBufferSize) || (bodybound(arg0) >= 0 && bodybound(arg0) <= t.maxHTTPBufferSize) [C13.poll.bound]
//@   callsite ResponseWriter.WriteHeader
//@     requires arg0 == 413 ==> t.maxHTTPBufferSize > 0 && old(r.ContentLength) > t.maxHTTPBufferSize [C13.poll.accepts]

#!/usr/bin/env python3
# seeds2_save.py <id>...: second-round seeds (made by sub-agents against the REPAIRED tree, contracts removed from their
# worktree): copies /tmp/seed2_<id>/<k> to /verif/seeded/r2-<id>-<k>/, runs the selftest, writes meta.json and
# /verif/seeded/RESULTS2.json + RESULTS2.md (merged with earlier entries).
import json, os, re, shutil, subprocess, sys, glob
V = '/verif'
ROUND = os.environ.get('ROUND', '2')
res = {}
if os.path.exists(f'{V}/seeded/RESULTS2.json'):
    res = {r['dir']: r for r in json.load(open(f'{V}/seeded/RESULTS2.json'))}
for pid in sys.argv[1:]:
    for k in sorted(os.listdir(f'/tmp/seed{ROUND}_{pid}')) if os.path.isdir(f'/tmp/seed{ROUND}_{pid}') else []:
        src = f'/tmp/seed{ROUND}_{pid}/{k}'
        if not os.path.exists(f'{src}/patch.diff') or k.startswith('_'):
            continue
        name = f'r{ROUND}-{pid}-{k}'
        out = f'{V}/seeded/{name}'
        os.makedirs(out, exist_ok=True)
        for f in ['patch.diff', 'notes.md'] + [os.path.basename(x) for x in glob.glob(f'{src}/zz_demo*.go')]:
            if os.path.exists(f'{src}/{f}'):
                shutil.copy(f'{src}/{f}', f'{out}/{f}')
        notes = open(f'{src}/notes.md').read() if os.path.exists(f'{src}/notes.md') else ''
        title = (notes.strip().splitlines() or [''])[0].lstrip('# ').strip()
        m = re.search(r'##\s*What it needs[^\n]*\n(.*?)(\n## |\Z)', notes, re.S)
        needs = re.sub(r'\s+', ' ', m.group(1)).strip()[:700] if m else ''
        files = sorted(set(re.findall(r'^\+\+\+ b/(\S+)', open(f'{src}/patch.diff').read(), re.M)))
        cmd = f'{V}/selftest.sh {pid} {out}/patch.diff expect-violation'
        r = subprocess.run(cmd, shell=True, capture_output=True, text=True)
        o = r.stdout + r.stderr
        st = 'detected' if o.strip() and 'detected' in o.splitlines()[-1] else 'missed'
        meta = {'dir': name, 'property': pid, 'change': title, 'files': files,
                'origin': f'round {ROUND}: sub-agent given only the property text and a scratch worktree of the repaired tree with the contract files removed; it confirmed suite passes with the patch, demo fails with it and passes without',
                'needs_to_manifest': needs, 'patch_applies_to': 'repaired tree at the time of the round (git apply / patch -p1)',
                'demonstration': 'zz_demo*_test.go (see notes.md for package directory and command)', 'what_i_ran': cmd,
                'result': st, 'detected_by_obligations': sorted(set(re.findall(r'obligation="([^"]+)"', o)))}
        json.dump(meta, open(f'{out}/meta.json', 'w'), indent=1)
        res[name] = meta
        print(name, st, meta['detected_by_obligations'][:2], flush=True)
lst = [res[k] for k in sorted(res)]
json.dump(lst, open(f'{V}/seeded/RESULTS2.json', 'w'), indent=1)
with open(f'{V}/seeded/RESULTS2.md', 'w') as f:
    f.write('| seed | change | files | result | detected by |\n|---|---|---|---|---|\n')
    for r in lst:
        f.write(f"| {r['dir']} | {r['change'][:110]} | {', '.join(r['files'])} | {r['result']} | {', '.join(r['detected_by_obligations'][:3])[:160]} |\n")

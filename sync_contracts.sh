#!/bin/sh
# copies the contract mirror /verif/contracts/** into /repo (hook files, build tag verif)
cd /verif/contracts && find . -name zz_contracts_verif.go | while read f; do
  mkdir -p "/repo/$(dirname "$f")"; cmp -s "$f" "/repo/$f" || cp "$f" "/repo/$f"
done

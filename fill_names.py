#!/usr/bin/env python3
# fill_names.py <id> [extra-prefixes...]: required_names of checks/<id>.json := every labelled obligation of the last evidence run
import json, sys
pid = sys.argv[1]
ev = json.load(open(f'/verif/evidence/{pid}.json'))
names = set()
def walk(x):
    if isinstance(x, dict):
        for k, v in x.items():
            if k in ('name', 'obligation') and isinstance(v, str) and len(v) > 3 and v[0] == 'C' and v[1:3].isdigit() and '.' in v and '#' not in v:
                names.add(v)
            walk(v)
    elif isinstance(x, list):
        for v in x:
            walk(v)
walk(ev)
p = f'/verif/checks/{pid}.json'
d = json.load(open(p))
d['required_names'] = sorted(names)
json.dump(d, open(p, 'w'), indent=1)
print(pid, len(names), 'names')

#!/bin/sh
# seed2_try.sh <id>: second-round seeds (made against the repaired tree): selftest each /tmp/seed2_<id>/<k>/patch.diff
id="$1"
for k in 1 2 3; do
  p=/tmp/seed2_$id/$k/patch.diff
  [ -f "$p" ] || continue
  /verif/selftest.sh $id $p 2>&1 | grep "VIOLATION\|SELFTEST" | sed 's|replay=[^ ]* ||' | cut -c1-220 | sed "s|^|$id/$k: |"
done

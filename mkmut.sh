#!/bin/sh
# mkmut.sh <dir> [patch...] : scratch copy of /repo's working tree (tracked + contract files) with patches applied
set -e
d="$1"; shift
rm -rf "$d"; mkdir -p "$d"
cd /repo && git ls-files -co --exclude-standard | grep -v '^examples/' | while read f; do mkdir -p "$d/$(dirname "$f")"; cp "$f" "$d/$f"; done
for p in "$@"; do (cd "$d" && patch -s -p1 < "$p"); done
